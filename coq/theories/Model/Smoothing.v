(* Model of cnvlib/smoothing.py: wing computation, mirror padding, rolling
   median, window convolution (unweighted / weighted), Kaiser and
   Savitzky-Golay smoothing.  Window coefficients (np.kaiser, scipy
   savgol_coeffs, the polynomial edge fit of savgol_filter(mode="interp")) are
   oracle vectors supplied by the harness from the same library calls; the
   float-sensitive ceil(n*frac*0.5) of _width2wing is an oracle integer with the
   contract "within one of the exact value". *)
From CNV Require Import Base.Prelude Base.QNum Gen.DescDefaults.
From Coq Require Import Qround Qabs.
Local Open Scope Q_scope.

(* ---- _width2wing ---------------------------------------------------------- *)
Inductive wing_result :=
| WingOk (w : Z)
| WingValueError          (* width neither a fraction in (0,1) nor an integer >= 2 *)
| WingAssert              (* assert wing >= 1 *)
| WingOracleBad.          (* supplied ceil value violates its contract *)

Definition is_integer_q (q : Q) : bool := Qeq_bool (inject_Z (Qfloor q)) q.

Definition wing_exact_frac (n : Z) (width : Q) : Z :=
  ceilQ (qmul (qmul (inject_Z n) width) WING_HALF).

Definition wing_clamp (n : Z) (wing0 : Z) : wing_result :=
  let w1 := Z.max wing0 MIN_WING in
  let w2 := Z.min w1 (n - 1) in
  if (WING_ASSERT_MIN <=? w2)%Z then WingOk w2 else WingAssert.

Definition width2wing (n : Z) (width : Q) (frac_oracle : Z) : wing_result :=
  if qlt_b 0 width && qlt_b width 1 then
    if (Z.abs (frac_oracle - wing_exact_frac n width) <=? 1)%Z
    then wing_clamp n frac_oracle else WingOracleBad
  else if qle_b WIDTH_INT_MIN width && is_integer_q width then
    let w := qmin2 width (inject_Z (n - 1)) in
    wing_clamp n (Qfloor (qdiv w 2))
  else WingValueError.

(* ---- _pad_array ----------------------------------------------------------- *)
Definition lastn {A} (k : nat) (l : list A) : list A := skipn (length l - k) l.

Definition pad_array {A} (x : list A) (wing : nat) : list A :=
  rev (firstn wing x) ++ x ++ rev (lastn wing x).

(* y[wing:-wing] *)
Definition unpad {A} (y : list A) (wing : nat) : list A :=
  firstn (length y - wing - wing) (skipn wing y).

(* ---- rolling median ------------------------------------------------------- *)
Definition windows (k : nat) (y : list Q) (count : nat) : list (list Q) :=
  map (fun i => firstn k (skipn i y)) (seq 0 count).

Definition rolling_median_wing (x : list Q) (wing : nat) : list Q :=
  map median (windows (2 * wing + 1) (pad_array x wing) (length x)).

(* len(x) < 2: the signal is returned unchanged (before the width is looked at) *)
Definition rolling_median (x : list Q) (width : Q) (frac_oracle : Z) : list Q + wing_result :=
  if (Z.of_nat (length x) <? ROLLING_MIN_LEN)%Z then inl x
  else match width2wing (Z.of_nat (length x)) width frac_oracle with
       | WingOk w => inl (rolling_median_wing x (Z.to_nat w))
       | r => inr r
       end.

(* ---- convolution, mode "same" (window not longer than the signal) --------- *)
Definition normalize (window : list Q) : list Q :=
  let s := qsum window in map (fun c => qdiv c s) window.

Definition conv_same (window y : list Q) : list Q :=
  let m := length window in
  let off := Nat.div m 2 in
  let yz := repeat 0 (m - 1 - off) ++ y ++ repeat 0 off in
  map (fun seg => qdot (rev window) seg) (windows m yz (length y)).

Fixpoint iterate {A} (n : nat) (f : A -> A) (x : A) : A :=
  match n with O => x | S k => iterate k f (f x) end.

Definition convolve_unweighted (window signal : list Q) (wing n_iter : nat) : list Q :=
  let win := normalize window in
  unpad (iterate n_iter (conv_same win) signal) wing.

(* weights padded and rolled off linearly in the mirrored wings:
   linspace(1/wing, 1, wing)[i] = (i+1)/wing *)
Definition rolloff (wing : nat) : list Q :=
  map (fun i => qdiv (qofnat (i + 1)) (qofnat wing)) (seq 0 wing).
Fixpoint mul_lists (a b : list Q) : list Q :=
  match a, b with x :: a', y :: b' => qmul x y :: mul_lists a' b' | _, _ => [] end.
Definition pad_weights (w : list Q) (wing : nat) : list Q :=
  let p := pad_array w wing in
  let n := length p in
  let left := mul_lists (firstn wing p) (rolloff wing) in
  let mid := firstn (n - wing - wing) (skipn wing p) in
  let right := mul_lists (skipn (n - wing) p) (rev (rolloff wing)) in
  left ++ mid ++ right.

(* convolve_weighted.  A value is [None] when the code's float is not finite: a
   normaliser N that is exactly zero gives 0/0 = NaN or x/0 = inf, and every
   window that covers a non-finite value is non-finite again (NaN and inf are
   absorbing under products, sums and quotients), so [None] propagates exactly
   like that.  The weights themselves stay finite. *)
Definition windows_g {A} (k : nat) (y : list A) (count : nat) : list (list A) :=
  map (fun i => firstn k (skipn i y)) (seq 0 count).

Fixpoint all_some (l : list (option Q)) : option (list Q) :=
  match l with
  | [] => Some []
  | Some x :: t => match all_some t with Some r => Some (x :: r) | None => None end
  | None :: _ => None
  end.

Definition conv_same_opt (window : list Q) (y : list (option Q)) : list (option Q) :=
  let m := length window in
  let off := Nat.div m 2 in
  let yz := repeat (Some 0) (m - 1 - off) ++ y ++ repeat (Some 0) off in
  map (fun seg => match all_some seg with Some s => Some (qdot (rev window) s) | None => None end)
      (windows_g m yz (length y)).

Fixpoint mul_opt (w : list Q) (y : list (option Q)) : list (option Q) :=
  match w, y with
  | a :: w', Some b :: y' => Some (qmul a b) :: mul_opt w' y'
  | _ :: w', None :: y' => None :: mul_opt w' y'
  | _, _ => []
  end.

Fixpoint div_opt (d : list (option Q)) (n : list Q) : list (option Q) :=
  match d, n with
  | Some x :: d', y :: n' => (if qeq_b y 0 then None else Some (qdiv x y)) :: div_opt d' n'
  | None :: d', _ :: n' => None :: div_opt d' n'
  | _, _ => []
  end.

Fixpoint convolve_weighted_iter (n_iter : nat) (win : list Q) (y : list (option Q)) (w : list Q)
  : list (option Q) * list Q :=
  match n_iter with
  | O => (y, w)
  | S k =>
      let D := conv_same_opt win (mul_opt w y) in
      let N := conv_same win w in
      convolve_weighted_iter k win (div_opt D N) (conv_same win w)
  end.

Definition convolve_weighted (window signal weights : list Q) (n_iter : nat) : list (option Q) * list Q :=
  convolve_weighted_iter n_iter (normalize window) (map Some signal) weights.

(* ---- kaiser --------------------------------------------------------------- *)
Definition kaiser_unweighted (x : list Q) (wing : nat) (window : list Q) : list Q :=
  convolve_unweighted window (pad_array x wing) wing 1.

(* the weighted branch does not un-pad *)
Definition kaiser_weighted (x w : list Q) (wing : nat) (window : list Q) : list (option Q) :=
  fst (convolve_weighted window (pad_array x wing) (pad_weights w wing) 1).

(* ---- savgol --------------------------------------------------------------- *)
Record savgol_par := { sg_wing : Z; sg_window : Z; sg_order : Z; sg_iter : Z }.

(* parameter adjustment of savgol(); [total_width = None] is n_iter * window_width *)
Definition savgol_total_width (total_width : option Q) (window_width n_iter : Z) : Q :=
  match total_width with Some t => t | None => inject_Z (n_iter * window_width) end.

Definition savgol_params (wing window_width order : Z) : savgol_par :=
  let total := (2 * wing + 1)%Z in
  let ww := Z.min window_width total in
  let ord := Z.min order (ww / 2) in
  let it := Z.max 1 (Z.min SAVGOL_MAX_ITER (total / ww)) in
  {| sg_wing := wing; sg_window := ww; sg_order := ord; sg_iter := it |}.

(* one savgol_filter(mode="interp") pass: interior by convolution, the first and
   last half-window by the (oracle) polynomial edge-fit rows applied to the first
   and last full window *)
Definition sg_pass (coeffs : list Q) (el er : list (list Q)) (y : list Q) : list Q :=
  let m := length coeffs in
  let half := Nat.div m 2 in
  let n := length y in
  map (fun row => qdot row (firstn m y)) el
  ++ map (fun seg => qdot (rev coeffs) seg) (windows m y (n - half - half))
  ++ map (fun row => qdot row (lastn m y)) er.

Definition savgol_unweighted (x : list Q) (wing n_iter : nat) (coeffs : list Q)
  (el er : list (list Q)) : list Q :=
  unpad (iterate n_iter (sg_pass coeffs el er) (pad_array x wing)) wing.

Definition savgol_weighted (x w : list Q) (wing n_iter : nat) (coeffs : list Q) : list (option Q) :=
  unpad (fst (convolve_weighted coeffs (pad_array x wing) (pad_weights w wing) n_iter)) wing.

(* ---- top-level functions (short-signal guards, wing from the width) ------- *)
Definition kaiser (x : list Q) (width : Q) (frac_oracle : Z) (window : list Q) : list Q + wing_result :=
  if (Z.of_nat (length x) <? KAISER_MIN_LEN)%Z then inl x
  else match width2wing (Z.of_nat (length x)) width frac_oracle with
       | WingOk w =>
           let wing := Z.to_nat w in
           if Nat.eqb (length window) (2 * wing + 1) then inl (kaiser_unweighted x wing window)
           else inr WingOracleBad
       | r => inr r
       end.

Definition savgol_plan (n : Z) (total_width : option Q) (frac_oracle window_width order n_iter : Z)
  : savgol_par + wing_result :=
  match width2wing n (savgol_total_width total_width window_width n_iter) frac_oracle with
  | WingOk w => inl (savgol_params w window_width order)
  | r => inr r
  end.

Definition savgol (x : list Q) (total_width : option Q) (frac_oracle window_width order n_iter : Z)
  (coeffs : list Q) (el er : list (list Q)) : list Q + wing_result :=
  if (Z.of_nat (length x) <? SAVGOL_MIN_LEN)%Z then inl x
  else match savgol_plan (Z.of_nat (length x)) total_width frac_oracle window_width order n_iter with
       | inl p =>
           let half := Nat.div (length coeffs) 2 in
           if Z.eqb (Z.of_nat (length coeffs)) (sg_window p) && Nat.eqb (length el) half
              && Nat.eqb (length er) half
           then inl (savgol_unweighted x (Z.to_nat (sg_wing p)) (Z.to_nat (sg_iter p)) coeffs el er)
           else inr WingOracleBad
       | inr r => inr r
       end.

Definition savgol_w (x w : list Q) (total_width : option Q) (frac_oracle window_width order n_iter : Z)
  (coeffs : list Q) : list (option Q) + wing_result :=
  if (Z.of_nat (length x) <? SAVGOL_MIN_LEN)%Z then inl (map Some x)
  else match savgol_plan (Z.of_nat (length x)) total_width frac_oracle window_width order n_iter with
       | inl p =>
           if Z.eqb (Z.of_nat (length coeffs)) (sg_window p) && Nat.eqb (length x) (length w)
           then inl (savgol_weighted x w (Z.to_nat (sg_wing p)) (Z.to_nat (sg_iter p)) coeffs)
           else inr WingOracleBad
       | inr r => inr r
       end.

(* ---- guess_window_size ---------------------------------------------------- *)
(* the scale estimate (a square root) and len(x) ** (4/5) are oracle numbers: the
   code's own floats; what is modelled is the rounding and the clamping *)
Definition guess_width_raw (sd pow45 : Q) : Q := qmul (qmul GUESS_FACTOR sd) pow45.
Definition guess_window_size (n : Z) (sd pow45 : Q) : Z :=
  Z.min n (Z.max GUESS_MIN_WIDTH (round_half_even (guess_width_raw sd pow45))).

(* ---- check_inputs: wing, padded signal, padded and rolled-off weights ------ *)
Definition check_inputs (x : list Q) (weights : option (list Q)) (width : Q) (frac_oracle : Z)
  : (Z * list Q * option (list Q)) + wing_result :=
  match width2wing (Z.of_nat (length x)) width frac_oracle with
  | WingOk w =>
      let wing := Z.to_nat w in
      inl (w, pad_array x wing, match weights with Some ws => Some (pad_weights ws wing) | None => None end)
  | r => inr r
  end.
