(* Model of cnvlib/target.py (do_target, shorten_labels, filter_names,
   shortest_name) on top of the C06 interval models, as the code is now.

   A genome table is `list grow`: rows (start, end, (chromosome, gene)) in table
   order.  The whole-table operations of skgenome used here (merge inside
   subdivide) are modelled with their cross-chromosome behaviour: the fast path
   of merge() is decided on the whole table in table order, the slow path
   regroups by chromosome name (sort_values: lexicographic) and re-sorts the
   groups by sorter_chrom (stable).

   The average bin size is a positive rational (the default is the float
   200 / 0.75); round(span / avg) is computed exactly, the harness treats the
   float near-ties as ambiguous (DESIGN section 2).  The cut points
   int(i * (span / nbins)) are the `cut` oracle of C06.  No proofs here. *)
From CNV Require Import Base.Prelude Base.Str Model.IvRow Model.IvCombine Model.Intervals Model.Chromsort.
From CNV Require Gen.IvDefaults Gen.BinsDefaults.

Definition gpay : Type := (string * string)%type.       (* chromosome, gene *)
Definition grow : Type := @row gpay.
Definition chrom (r : grow) : string := fst (pay r).
Definition gene (r : grow) : string := snd (pay r).
Definition on (c : string) (r : grow) : bool := String.eqb (chrom r) c.

(* get_combiners: chromosome -> first_of, gene -> join_strings *)
Definition comb_cg (first : gpay) (ps : list gpay) : gpay :=
  (fst first, join_strings (map snd ps)).

(* chromosome names in order of first occurrence (groupby(sort=False), unique()) *)
Definition chroms_of (t : list grow) : list string := uniq (map chrom t).

Definition str_leb (a b : string) : bool :=
  match String.compare a b with Gt => false | _ => true end.
Definition chrom_leb (a b : string) : bool := ckey_leb (chrom_key a) (chrom_key b).

(* merge(), slow path: sort_values(["chromosome", "start", "end"]) + groupby(sort=False)
   visits the chromosomes in lexicographic order; the result is then re-indexed by a
   stable sort on sorter_chrom *)
Definition merged_chrom_order (t : list grow) : list string :=
  stable_sort chrom_leb (stable_sort str_leb (chroms_of t)).

Definition gmerge (bp : Z) (t : list grow) : list grow :=
  match t with
  | [] => []
  | _ =>
      if all_gaps bp t then t
      else flat_map (fun c => merge_slow comb_cg bp (filter (on c) t)) (merged_chrom_order t)
  end.

(* int(round(span / avg_size)) or 1 for a rational avg_size = num / den *)
Definition nbins_q (avg : Q) (span : Z) : Z := nbins (Qnum avg) (span * Zpos (Qden avg)).

(* _split_targets for one merged row (Model.Intervals.split_row with a rational avg) *)
Definition split_row_q {A} (avg : Q) (mn : Z) (cut : Z -> Z -> Z -> Z) (r : @row A) : list (@row A) :=
  let span := hi r - lo r in
  if span <? mn then []
  else
    let n := nbins_q avg span in
    if n =? 1 then [r]
    else bins_from (cut span n) (lo r) (lo r) 1 (Z.to_nat (n - 1)) (hi r) (pay r).

(* GenomicArray.subdivide on a whole table *)
Definition gsubdivide (avg : Q) (mn : Z) (cut : Z -> Z -> Z -> Z) (t : list grow) : list grow :=
  flat_map (split_row_q avg mn cut) (gmerge Gen.IvDefaults.merge_bp_default t).

(* tgt_arr[tgt_arr.start != tgt_arr.end] *)
Definition drop_zero_width (t : list grow) : list grow :=
  filter (fun r => negb (lo r =? hi r)) t.

(* do_target without annotation and without label shortening (both only rewrite
   the gene column, see shorten_labels below) *)
Definition do_target (split : bool) (avg : Q) (cut : Z -> Z -> Z -> Z) (baits : list grow) : list grow :=
  let t := drop_zero_width baits in
  if split then gsubdivide avg Gen.BinsDefaults.target_min_size cut t else t.

(* ---- shorten_labels -------------------------------------------------------
   Python sets of names are duplicate-free lists.  `min(names, key=len)` over a
   set picks one of the shortest names in hash order: the model returns all
   candidates for every output position. *)

(* str.rstrip(): trailing ASCII whitespace *)
Definition is_space (c : ascii) : bool :=
  let n := Z.of_nat (nat_of_ascii c) in
  ((9 <=? n) && (n <=? 13)) || ((28 <=? n) && (n <=? 32)).

Fixpoint lstrip_chars (s : list ascii) : list ascii :=
  match s with
  | c :: t => if is_space c then lstrip_chars t else s
  | [] => []
  end.
Definition rstrip_chars (s : list ascii) : list ascii := rev (lstrip_chars (rev s)).

(* str.split(sep) for a one-character separator: always at least one piece *)
Fixpoint split_chars (sep : ascii) (cur : list ascii) (s : list ascii) : list (list ascii) :=
  match s with
  | [] => [rev cur]
  | c :: t => if Ascii.eqb c sep then rev cur :: split_chars sep [] t else split_chars sep (c :: cur) t
  end.

Definition sep_char (s : string) : ascii :=
  match s with String c _ => c | EmptyString => ","%char end.

Definition split_str (sep : string) (s : list ascii) : list string :=
  map unchars (split_chars (sep_char sep) [] s).

(* set(label.rstrip().split(",")) *)
Definition names_of (label : string) : list string :=
  uniq (split_str Gen.BinsDefaults.label_sep (rstrip_chars (chars label))).

Definition inter (a b : list string) : list string := filter (fun x => mem_string x b) a.

Definition slen (s : string) : Z := Z.of_nat (String.length s).

(* filter_names(names, exclude=("mRNA",)) *)
Definition filter_names (names : list string) : list string :=
  if 1 <? Z.of_nat (length names) then
    match filter (fun n => negb (existsb (fun ex => str_prefix ex n) Gen.BinsDefaults.name_exclude)) names with
    | [] => names
    | ok => ok
    end
  else names.

Fixpoint min_len (d : Z) (l : list string) : Z :=
  match l with [] => d | x :: t => Z.min (slen x) (min_len d t) end.

(* if len(name) > 2 and "|" in name[1:-1]: name = name.split("|")[-1] *)
Definition strip_db (name : string) : string :=
  let cs := chars name in
  let bar := sep_char Gen.BinsDefaults.accession_sep in
  if (2 <? slen name) && existsb (Ascii.eqb bar) (removelast (tl cs))
  then last (split_str Gen.BinsDefaults.accession_sep cs) name
  else name.

(* the possible results of shortest_name(names) *)
Definition shortest_cands (names : list string) : list string :=
  let f := filter_names names in
  match f with
  | [] => []
  | x :: _ =>
      let m := min_len (slen x) f in
      uniq (map strip_db (filter (fun n => slen n =? m) f))
  end.

Fixpoint shorten_go (curr : list string) (count : nat) (labels : list string) : list (list string) :=
  match labels with
  | [] => repeat (shortest_cands curr) count
  | l :: rest =>
      let next := names_of l in
      match inter curr next with
      | [] => repeat (shortest_cands curr) count ++ shorten_go next 1 rest
      | ov => shorten_go (filter_names ov) (S count) rest
      end
  end.

Definition shorten_labels (labels : list string) : list (list string) := shorten_go [] 0 labels.

(* tgt_arr["gene"] = list(shorten_labels(tgt_arr["gene"])): `pick` stands for the
   name min(names, key=len) returns among the equally short candidates *)
Definition set_genes (t : list grow) (names : list string) : list grow :=
  map (fun rg => (lo (fst rg), hi (fst rg), (chrom (fst rg), snd rg))) (combine t names).

Definition do_target_short (pick : list string -> string) (split : bool) (avg : Q)
                           (cut : Z -> Z -> Z -> Z) (baits : list grow) : list grow :=
  let t := do_target split avg cut baits in
  set_genes t (map pick (shorten_labels (map gene t))).
