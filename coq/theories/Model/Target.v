(* Model of cnvlib/target.py (do_target, shorten_labels, filter_names,
   shortest_name) on top of the C06 interval models, as the code is now.

   A genome table is `list grow`: rows (start, end, (chromosome, gene)) in table
   order.  The whole-table operations of skgenome used here (merge inside
   subdivide) are modelled with their cross-chromosome behaviour: the fast path
   of merge() is decided on the whole table in table order, the slow path
   regroups by chromosome name (sort_values: lexicographic) and re-sorts the
   groups by sorter_chrom (stable).

   The average bin size is a positive rational (the default is the float
   200 / 0.75); round(span / avg) is computed exactly, the harness treats the
   float near-ties as ambiguous (DESIGN section 2).  The cut points
   int(i * (span / nbins)) are the `cut` oracle of C06.  No proofs here. *)
From CNV Require Import Base.Prelude Base.Str Model.IvRow Model.IvCombine Model.Intervals Model.Chromsort.
From CNV Require Model.Ranges Model.Into.
From CNV Require Gen.IvDefaults Gen.BinsDefaults.

Definition gpay : Type := (string * string)%type.       (* chromosome, gene *)
Definition grow : Type := @row gpay.
Definition chrom (r : grow) : string := fst (pay r).
Definition gene (r : grow) : string := snd (pay r).
Definition on (c : string) (r : grow) : bool := String.eqb (chrom r) c.

(* get_combiners: chromosome -> first_of, gene -> join_strings *)
Definition comb_cg (first : gpay) (ps : list gpay) : gpay :=
  (fst first, join_strings (map snd ps)).

(* chromosome names in order of first occurrence (groupby(sort=False), unique()) *)
Definition chroms_of (t : list grow) : list string := uniq (map chrom t).

Definition str_leb (a b : string) : bool :=
  match String.compare a b with Gt => false | _ => true end.
Definition chrom_leb (a b : string) : bool := ckey_leb (chrom_key a) (chrom_key b).

(* merge(), slow path: sort_values(["chromosome", "start", "end"]) + groupby(sort=False)
   visits the chromosomes in lexicographic order; the result is then re-indexed by a
   stable sort on sorter_chrom *)
Definition merged_chrom_order (t : list grow) : list string :=
  stable_sort chrom_leb (stable_sort str_leb (chroms_of t)).

Definition gmerge (bp : Z) (t : list grow) : list grow :=
  match t with
  | [] => []
  | _ =>
      if all_gaps bp t then t
      else flat_map (fun c => merge_slow comb_cg bp (filter (on c) t)) (merged_chrom_order t)
  end.

(* int(round(span / avg_size)) or 1 for a rational avg_size = num / den *)
Definition nbins_q (avg : Q) (span : Z) : Z := nbins (Qnum avg) (span * Zpos (Qden avg)).

(* _split_targets for one merged row (Model.Intervals.split_row with a rational avg) *)
Definition split_row_q {A} (avg : Q) (mn : Z) (cut : Z -> Z -> Z -> Z) (r : @row A) : list (@row A) :=
  let span := hi r - lo r in
  if span <? mn then []
  else
    let n := nbins_q avg span in
    if n =? 1 then [r]
    else bins_from (cut span n) (lo r) (lo r) 1 (Z.to_nat (n - 1)) (hi r) (pay r).

(* GenomicArray.subdivide on a whole table *)
Definition gsubdivide (avg : Q) (mn : Z) (cut : Z -> Z -> Z -> Z) (t : list grow) : list grow :=
  flat_map (split_row_q avg mn cut) (gmerge Gen.IvDefaults.merge_bp_default t).

(* tgt_arr[tgt_arr.start != tgt_arr.end] *)
Definition drop_zero_width (t : list grow) : list grow :=
  filter (fun r => negb (lo r =? hi r)) t.

(* do_target without annotation and without label shortening (both only rewrite
   the gene column, see shorten_labels below) *)
Definition do_target (split : bool) (avg : Q) (cut : Z -> Z -> Z -> Z) (baits : list grow) : list grow :=
  let t := drop_zero_width baits in
  if split then gsubdivide avg Gen.BinsDefaults.target_min_size cut t else t.

(* ---- shorten_labels -------------------------------------------------------
   Python sets of names are duplicate-free lists.  `min(names, key=len)` over a
   set picks one of the shortest names in hash order: the model returns all
   candidates for every output position. *)

(* str.rstrip(): trailing ASCII whitespace *)
Definition is_space (c : ascii) : bool :=
  let n := Z.of_nat (nat_of_ascii c) in
  ((9 <=? n) && (n <=? 13)) || ((28 <=? n) && (n <=? 32)).

Fixpoint lstrip_chars (s : list ascii) : list ascii :=
  match s with
  | c :: t => if is_space c then lstrip_chars t else s
  | [] => []
  end.
Definition rstrip_chars (s : list ascii) : list ascii := rev (lstrip_chars (rev s)).

(* str.split(sep) for a one-character separator: always at least one piece *)
Fixpoint split_chars (sep : ascii) (cur : list ascii) (s : list ascii) : list (list ascii) :=
  match s with
  | [] => [rev cur]
  | c :: t => if Ascii.eqb c sep then rev cur :: split_chars sep [] t else split_chars sep (c :: cur) t
  end.

Definition sep_char (s : string) : ascii :=
  match s with String c _ => c | EmptyString => ","%char end.

Definition split_str (sep : string) (s : list ascii) : list string :=
  map unchars (split_chars (sep_char sep) [] s).

(* set(label.rstrip().split(",")) *)
Definition names_of (label : string) : list string :=
  uniq (split_str Gen.BinsDefaults.label_sep (rstrip_chars (chars label))).

Definition inter (a b : list string) : list string := filter (fun x => mem_string x b) a.

Definition slen (s : string) : Z := Z.of_nat (String.length s).

(* filter_names(names, exclude=("mRNA",)) *)
Definition filter_names (names : list string) : list string :=
  if 1 <? Z.of_nat (length names) then
    match filter (fun n => negb (existsb (fun ex => str_prefix ex n) Gen.BinsDefaults.name_exclude)) names with
    | [] => names
    | ok => ok
    end
  else names.

Fixpoint min_len (d : Z) (l : list string) : Z :=
  match l with [] => d | x :: t => Z.min (slen x) (min_len d t) end.

(* if len(name) > 2 and "|" in name[1:-1]: name = name.split("|")[-1] *)
Definition strip_db (name : string) : string :=
  let cs := chars name in
  let bar := sep_char Gen.BinsDefaults.accession_sep in
  if (2 <? slen name) && existsb (Ascii.eqb bar) (removelast (tl cs))
  then last (split_str Gen.BinsDefaults.accession_sep cs) name
  else name.

(* the possible results of shortest_name(names) *)
Definition shortest_cands (names : list string) : list string :=
  let f := filter_names names in
  match f with
  | [] => []
  | x :: _ =>
      let m := min_len (slen x) f in
      uniq (map strip_db (filter (fun n => slen n =? m) f))
  end.

Fixpoint shorten_go (curr : list string) (count : nat) (labels : list string) : list (list string) :=
  match labels with
  | [] => repeat (shortest_cands curr) count
  | l :: rest =>
      let next := names_of l in
      match inter curr next with
      | [] => repeat (shortest_cands curr) count ++ shorten_go next 1 rest
      | ov => shorten_go (filter_names ov) (S count) rest
      end
  end.

Definition shorten_labels (labels : list string) : list (list string) := shorten_go [] 0 labels.

(* tgt_arr["gene"] = list(shorten_labels(tgt_arr["gene"])): `pick` stands for the
   name min(names, key=len) returns among the equally short candidates *)
Definition set_genes (t : list grow) (names : list string) : list grow :=
  map (fun rg => (lo (fst rg), hi (fst rg), (chrom (fst rg), snd rg))) (combine t names).

Definition do_target_short (pick : list string -> string) (split : bool) (avg : Q)
                           (cut : Z -> Z -> Z -> Z) (baits : list grow) : list grow :=
  let t := do_target split avg cut baits in
  set_genes t (map pick (shorten_labels (map gene t))).

(* ---- shorten_labels, exactly --------------------------------------------------
   `min(filter_names(names), key=len)` over a Python SET returns the first of the
   shortest names in the set's iteration order (hash order: not a function of the
   set's contents across processes).  `pick` stands for that choice: it is handed
   the equally short names and returns one of them.  Everything else in
   shorten_labels depends on the contents of the sets only. *)
Definition shortest_names (names : list string) : list string :=
  let f := filter_names names in
  match f with
  | [] => []
  | x :: _ => filter (fun n => slen n =? min_len (slen x) f) f
  end.

Definition shortest_name_pick (pick : list string -> string) (names : list string) : string :=
  strip_db (pick (shortest_names names)).

Fixpoint shorten_go_pick (pick : list string -> string) (curr : list string) (count : nat)
                         (labels : list string) : list string :=
  match labels with
  | [] => repeat (shortest_name_pick pick curr) count
  | l :: rest =>
      let next := names_of l in
      match inter curr next with
      | [] => repeat (shortest_name_pick pick curr) count ++ shorten_go_pick pick next 1 rest
      | ov => shorten_go_pick pick (filter_names ov) (S count) rest
      end
  end.

Definition shorten_labels_pick (pick : list string -> string) (labels : list string) : list string :=
  shorten_go_pick pick [] 0 labels.

(* the name the code emits whatever the iteration order, where there is one *)
Definition shorten_labels_det (labels : list string) : list (option string) :=
  map (fun c => match c with [x] => Some x | _ => None end) (shorten_labels labels).

(* ---- annotation ---------------------------------------------------------------
     annotation = tabio.read_auto(annotate)
     antitarget.compare_chrom_names(tgt_arr, annotation)
     if len(tgt_arr):
         tgt_arr["gene"] = list(annotation.into_ranges(tgt_arr, "gene", "-"))
   through the C07 model of into_ranges (Model/Into.v): the annotation table as the
   reader delivers it, rows labelled by position; the summary of a string column is
   join_strings.  The labels are assigned by position (a list), one per bin. *)

(* compare_chrom_names: both name sets, or ValueError (None) when the first is
   non-empty and disjoint from the second *)
Definition compare_chrom_names (a b : list grow) : option (list string * list string) :=
  let ac := chroms_of a in
  let bc := chroms_of b in
  match ac with
  | [] => Some (ac, bc)
  | _ => if existsb (fun c => mem_string c bc) ac then Some (ac, bc) else None
  end.

Fixpoint trows_from (i : Z) (t : list grow) : list Ranges.trow :=
  match t with
  | [] => []
  | r :: t' => (chrom r, Ranges.mkRow i (lo r) (hi r)) :: trows_from (i + 1) t'
  end.
Definition trows_of (t : list grow) : list Ranges.trow := trows_from 0 t.

Definition gene_at (t : list grow) (i : Z) : string :=
  match nth_error t (Z.to_nat i) with Some r => gene r | None => EmptyString end.

(* annotation.into_ranges(tgt_arr, "gene", "-"): None = the (empty) destination table itself *)
Definition annot_values (annot t : list grow) : option (list (option string)) :=
  Into.into_ranges (trows_of annot) (trows_of t) (gene_at annot)
                   Gen.BinsDefaults.annotate_default Into.join_strings.

Inductive annot_result :=
| AnnotRows (rows : list grow)
| AnnotValueError.

(* an empty bin table is returned as it is; the column assignment raises ValueError unless it
   is handed one value per row *)
Definition annotate (annot t : list grow) : annot_result :=
  match compare_chrom_names t annot with
  | None => AnnotValueError
  | Some _ =>
      match t with
      | [] => AnnotRows []
      | _ =>
          match annot_values annot t with
          | None => AnnotValueError
          | Some vals =>
              if Nat.eqb (length vals) (length t)
              then AnnotRows (set_genes t (map (fun v => match v with Some g => g | None => Gen.BinsDefaults.annotate_default end) vals))
              else AnnotValueError
          end
      end
  end.

(* do_target with every option: split, then annotate, then shorten *)
Definition do_target_full (pick : list string -> string) (split : bool) (avg : Q) (cut : Z -> Z -> Z -> Z)
                          (annot : option (list grow)) (short : bool) (baits : list grow) : annot_result :=
  let t := do_target split avg cut baits in
  let shorten t := if short then set_genes t (shorten_labels_pick pick (map gene t)) else t in
  match annot with
  | None => AnnotRows (shorten t)
  | Some a =>
      match annotate a t with
      | AnnotRows t' => AnnotRows (shorten t')
      | AnnotValueError => AnnotValueError
      end
  end.
