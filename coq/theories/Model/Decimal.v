(* Decimal printing / parsing of integers as the writers (pandas to_csv / str())
   and readers (int()) do for canonical decimal fields: "0", "17", "-5".
   Built on the standard library's Decimal <-> string conversion, whose
   round-trip lemmas are used in Proofs/FormatsLemmas.v.
   parse_Z accepts an optional leading '-' and at least one digit (leading
   zeros allowed, as Python's int()); '+', blanks and '_' are not accepted. *)
From Coq Require Import DecimalString DecimalZ.
From CNV Require Import Base.Prelude.

Definition print_Z (z : Z) : string := NilZero.string_of_int (Z.to_int z).

Definition parse_Z (s : string) : option Z :=
  option_map Z.of_int (NilZero.int_of_string s).
