(* Model of cnvlib/fix.py `do_fix` (with cnary.center_all / drop_low_coverage /
   residuals, smoothing.rolling_median, gary.add / sort) at the granularity C04
   observes: tables of rows in, a table of rows (or an error) out.

   Numbers: every log2 / weight is a rational, normalised with [Qred] after each
   update (so equal values are syntactically equal).  Constants come from
   Gen/Params.v and Gen/FixDefaults.v (regenerated from /repo on every run).

   Oracles (supplied by the harness from the libraries the code calls, see
   DESIGN section 2): the permutation drawn by np.random.permutation after
   seed(0xA5EED) for each table length, the half-window `wing` computed by
   smoothing._width2wing (the entry derives it from the float-sensitive ceil through
   Model/Smoothing.width2wing and refuses a value breaking its contract) and np.sqrt on
   the bin sizes.  The rolling median is Model/Smoothing.rolling_median_wing.  The variance
   descriptives.biweight_midvariance(residuals) ** 2 is the parameter [bmv2] of [do_fix_gen]
   (contract: not negative): the exact rational biweight iteration squares the size of its
   numbers at every step (measured: a 3-value input does not finish in a minute), so the
   harness computes it with the code's own function on the residuals the model hands out;
   [var_of] is the exact definition for small inputs (entry c04_var) and the closed instance
   [do_fix].

   Alignment: load_adjust_coverages first brings the sample into genomic order ([presort];
   /repo 9f02d63 -- the generated flag [fix_presorts] records whether the source still does).
   After match_ref the sample row and its reference row travel together as a pair; the code
   keeps two tables aligned by position, which is the same thing once the sample is sorted and
   its sort keys are distinct.

   No proofs here (Proofs/Fix*.v). *)
From CNV Require Import Base.Prelude Base.Str Base.QNum Model.Chromsort Model.Smoothing Model.Descriptives
  Gen.Params Gen.FixDefaults Gen.DescDefaults.
From Coq Require Import Qround Qabs.
Local Open Scope Q_scope.

(* ---- rows ------------------------------------------------------------------------ *)

Record srow := mkS {
  s_chrom : string; s_lo : Z; s_hi : Z; s_gene : string; s_log2 : Q; s_depth : Q }.

Record rrow := mkR {
  r_chrom : string; r_lo : Z; r_hi : Z;
  r_log2 : Q; r_depth : Q; r_gc : Q; r_rmask : Q; r_spread : Q }.

(* which optional columns exist, and which corrections are requested *)
Record cfg := mkCfg {
  has_sdepth : bool;        (* "depth" in the sample tables *)
  has_rdepth : bool;        (* "depth" in the reference *)
  has_gc : bool;            (* "gc" in the reference *)
  has_rmask : bool;         (* "rmask" in the reference *)
  do_gc : bool; do_edge : bool; do_rmask : bool }.

Definition key : Type := (string * Z * Z)%type.
Definition skey (s : srow) : key := (s_chrom s, s_lo s, s_hi s).
Definition rkey3 (r : rrow) : key := (r_chrom r, r_lo r, r_hi r).

Definition key_eqb (a b : key) : bool :=
  let '(c1, l1, h1) := a in let '(c2, l2, h2) := b in
  String.eqb c1 c2 && Z.eqb l1 l2 && Z.eqb h1 h2.

Definition brow : Type := (srow * rrow)%type.       (* sample bin with its matched reference bin *)
Definition bkey (b : brow) : key := skey (fst b).
Definition blog2 (b : brow) : Q := s_log2 (fst b).

Definition set_log2 (v : Q) (s : srow) : srow :=
  mkS (s_chrom s) (s_lo s) (s_hi s) (s_gene s) v (s_depth s).
Definition bset_log2 (v : Q) (b : brow) : brow := (set_log2 v (fst b), snd b).
Definition badd_log2 (c : Q) (b : brow) : brow := bset_log2 (Qred (blog2 b + c)) b.

(* ---- match_ref_to_sample -------------------------------------------------------------- *)

Inductive fix_error := DupSample | DupReference | MissingBins.

Fixpoint has_dup (ks : list key) : bool :=
  match ks with
  | [] => false
  | k :: t => existsb (key_eqb k) t || has_dup t
  end.

Definition lookup (ref : list rrow) (k : key) : option rrow :=
  find (fun r => key_eqb k (rkey3 r)) ref.

(* ValueError("Duplicated genomic coordinates in sample set") is raised before the
   one for the reference, which is raised before "Reference is missing N bins" *)
Definition match_ref (ref : list rrow) (samp : list srow) : fix_error + list brow :=
  if has_dup (map skey samp) then inl DupSample
  else if has_dup (map rkey3 ref) then inl DupReference
  else match Prelude.all_some (map (fun s => lookup ref (skey s)) samp) with
       | Some l => inr (combine samp l)
       | None => inl MissingBins
       end.

(* ---- mask_bad_bins ---------------------------------------------------------------------- *)

Definition gc_lower : Q := qmin2 GC_MIN_FRACTION GC_MAX_FRACTION.
Definition gc_upper : Q := qmax2 GC_MIN_FRACTION GC_MAX_FRACTION.

Definition bad_bin (c : cfg) (r : rrow) : bool :=
  qlt_b (r_log2 r) MIN_REF_COVERAGE
  || qlt_b (- MIN_REF_COVERAGE) (r_log2 r)
  || qlt_b MAX_REF_SPREAD (r_spread r)
  || (has_rdepth c && qeq_b (r_depth r) 0)
  || (has_gc c && (qlt_b gc_upper (r_gc r) || qlt_b (r_gc r) gc_lower)).

Definition mask_bad (c : cfg) (l : list brow) : list brow :=
  filter (fun b => negb (bad_bin c (snd b))) l.

(* ---- drop_low_coverage / autosomes / center_all ---------------------------------------------- *)

Definition low_cut : Q := Qred (NULL_LOG2_COVERAGE - MIN_REF_COVERAGE).

Definition low_b (c : cfg) (b : brow) : bool :=
  qlt_b (blog2 b) low_cut || (has_sdepth c && qeq_b (s_depth (fst b)) 0).

(* chromosome.str.match(r"(chr)?\d+$"): optional literal "chr", then one or more digits, end *)
Definition all_digits (cs : list ascii) : bool :=
  match cs with [] => false | _ => forallb is_digit cs end.
Definition is_auto_name (name : string) : bool :=
  let cs := chars name in
  all_digits cs || (prefixb chr_prefix cs && all_digits (skipn 3 cs)).
Definition is_auto (b : brow) : bool := is_auto_name (s_chrom (fst b)).

(* groupby("chromosome", sort=False): names in order of first appearance *)
Fixpoint distinct (l : list string) : list string :=
  match l with
  | [] => []
  | x :: t => x :: filter (fun y => negb (String.eqb x y)) (distinct t)
  end.

Definition chrom_values (l : list (string * Q)) (c : string) : list Q :=
  map snd (filter (fun p => String.eqb c (fst p)) l).

(* median of the per-chromosome medians *)
Definition chrom_medians (l : list (string * Q)) : list Q :=
  map (fun c => median (chrom_values l c)) (distinct (map fst l)).
Definition cmed (l : list (string * Q)) : Q := median (chrom_medians l).

Definition cl2 (b : brow) : string * Q := (s_chrom (fst b), blog2 b).

(* the bins center_all estimates the centre from *)
Definition center_sel (c : cfg) (skip_low : bool) (l : list brow) : list brow :=
  let base := if skip_low then filter (fun b => negb (low_b c b)) l else l in
  if existsb is_auto base then filter is_auto base else base.

Definition center_all (c : cfg) (skip_low : bool) (l : list brow) : list brow :=
  match center_sel c skip_low l with
  | [] => l
  | sel => let shift := Qred (- cmed (map cl2 sel)) in map (badd_log2 shift) l
  end.

(* ---- edge bias --------------------------------------------------------------------------- *)

Definition isz : Q := inject_Z INSERT_SIZE.

Definition edge_loss (t : Z) : Q :=
  let tq := inject_Z t in
  let base := isz / (2 * tq) in
  if (t <? INSERT_SIZE)%Z then Qred (base - (isz - tq) * (isz - tq) / (2 * isz * tq)) else Qred base.

Definition edge_gain (t g0 : Z) : Q :=
  let g := Z.max 0 g0 in
  let tq := inject_Z t in let gq := inject_Z g in
  let base := (isz - gq) * (isz - gq) / (4 * isz * tq) in
  if (t + g <? INSERT_SIZE)%Z
  then Qred (base - (isz - tq - gq) * (isz - tq - gq) / (4 * isz * tq))
  else Qred base.

(* one chromosome's tiles in table order *)
Fixpoint edge_go (prev_end : option Z) (l : list (Z * Z)) : list Q :=
  match l with
  | [] => []
  | (s, e) :: t =>
      let tsz := (e - s)%Z in
      let lg := match prev_end with
                | Some pe => if (s - pe <? INSERT_SIZE)%Z then edge_gain tsz (s - pe) else 0
                | None => 0
                end in
      let rg := match t with
                | (s2, _) :: _ => if (s2 - e <? INSERT_SIZE)%Z then edge_gain tsz (s2 - e) else 0
                | [] => 0
                end in
      Qred (lg + rg - edge_loss tsz) :: edge_go (Some e) t
  end.

(* get_edge_bias: per chromosome group (first-appearance order), concatenated; the
   result is attached to the rows BY POSITION *)
Definition edge_bias (l : list brow) : list Q :=
  let ks := map bkey l in
  concat (map (fun c => edge_go None
                 (map (fun k => (snd (fst k), snd k)) (filter (fun k => String.eqb c (fst (fst k))) ks)))
              (distinct (map (fun k => fst (fst k)) ks))).

(* ---- rolling median, center_by_window -------------------------------------------------------- *)

(* smoothing.rolling_median with the half-window [wing] from _width2wing: a signal shorter than
   ROLLING_MIN_LEN comes back unchanged *)
Definition rolling (wing : nat) (x : list Q) : list Q :=
  if (Z.of_nat (length x) <? ROLLING_MIN_LEN)%Z then x else rolling_median_wing x wing.

Definition pick {A} (l : list A) (perm : list nat) : list A :=
  flat_map (fun i => match nth_error l i with Some x => [x] | None => [] end) perm.

Definition key_leb (a b : Q * brow) : bool := qle_b (fst a) (fst b).

Definition sort_brows (l : list brow) : list brow := sort_regions_fast bkey l.

Definition center_by_window (perm : list nat) (wing : nat) (keys : list Q) (l : list brow) : list brow :=
  let shuffled := pick (combine keys l) perm in
  let sorted := map snd (stable_sort key_leb shuffled) in
  let biases := rolling wing (map blog2 sorted) in
  let fixed := map (fun p => bset_log2 (Qred (blog2 (fst p) - snd p)) (fst p)) (combine sorted biases) in
  sort_brows fixed.

(* ---- load_adjust_coverages --------------------------------------------------------------------- *)

Definition mostly_low (l : list brow) : bool :=
  (Z.of_nat (length (filter (fun b => qlt_b low_cut (blog2 b)) l)) <=? Z.of_nat (length l) / 2)%Z.

Definition corrections (c : cfg) (fix_gc fix_edge fix_rmask : bool) (perm : list nat) (wing : nat)
  (l : list brow) : list brow :=
  let l1 := if fix_gc && has_gc c
            then center_by_window perm wing (map (fun b => r_gc (snd b)) l) l else l in
  let l2 := if fix_edge then center_by_window perm wing (edge_bias l1) l1 else l1 in
  let l3 := if fix_rmask && has_rmask c
            then center_by_window perm wing (map (fun b => r_rmask (snd b)) l2) l2 else l2 in
  l3.

Definition presort (samp : list srow) : list srow :=
  if fix_presorts then sort_regions_fast skey samp else samp.

Definition load_adjust (c : cfg) (ref : list rrow) (is_target : bool) (perm : list nat) (wing : nat)
  (samp : list srow) : fix_error + list brow :=
  match samp with
  | [] => inr []
  | _ =>
    match match_ref ref (presort samp) with
    | inl e => inl e
    | inr m =>
        let ok := center_all c is_target (mask_bad c m) in
        if mostly_low ok then inr ok
        else inr (corrections c (do_gc c) (is_target && do_edge c) (negb is_target && do_rmask c) perm wing ok)
    end
  end.

(* ---- apply_weights -------------------------------------------------------------------------------- *)

Definition is_anti_gene (b : brow) : bool := mem_string (s_gene (fst b)) ANTITARGET_ALIASES.

(* CopyNumArray.residuals(): log2 minus the chromosome's median, chromosome groups concatenated *)
Definition residuals (l : list brow) : list Q :=
  let vs := map cl2 l in
  concat (map (fun c => let g := chrom_values vs c in
                        let m := median g in map (fun x => Qred (x - m)) g)
              (distinct (map fst vs))).

(* residuals of the bins of one class that are not low-coverage *)
Definition class_residuals (c : cfg) (anti : bool) (l : list brow) : list Q :=
  residuals (filter (fun b => negb (low_b c b)) (filter (fun b => Bool.eqb (is_anti_gene b) anti) l)).

Definition bsize (b : brow) : Z := (s_hi (fst b) - s_lo (fst b))%Z.

Definition frac1 (q : Q) : Q := q - inject_Z (Qfloor q).       (* np.mod(q, 1) *)

Definition pooled_ref (l : list brow) : bool :=
  existsb (fun b => qlt_b weight_epsilon (r_spread (snd b))) l
  && existsb (fun b => qlt_b weight_epsilon (Qabs (frac1 (r_log2 (snd b))))) l.

Definition clip (lo hi v : Q) : Q := if qlt_b v lo then lo else if qlt_b hi v then hi else v.

(* weight of one bin given its class variance, its sqrt size and the class mean sqrt size *)
Definition bin_weight (pooled : bool) (var sz mean_sz spread : Q) : Q :=
  let simple := 1 - var / (sz / mean_sz) in
  let w := if pooled
           then weight_blend_x * (1 - spread * spread) + (1 - weight_blend_x) * simple
           else simple in
  Qred (clip weight_epsilon 1 w).

Section Weights.
  Variable sqrtZ : Z -> Q.           (* np.sqrt on the integer bin sizes *)

  Definition class_mean_sz (anti : bool) (l : list brow) : Q :=
    qmean (map (fun b => sqrtZ (bsize b)) (filter (fun b => Bool.eqb (is_anti_gene b) anti) l)).

  Definition apply_weights (var_t var_a : Q) (l : list brow) : list (brow * Q) :=
    let pooled := pooled_ref l in
    let mt := class_mean_sz false l in
    let ma := class_mean_sz true l in
    map (fun b =>
           let anti := is_anti_gene b in
           (b, bin_weight pooled (if anti then var_a else var_t) (sqrtZ (bsize b))
                 (if anti then ma else mt) (r_spread (snd b)))) l.
End Weights.

(* ---- do_fix ------------------------------------------------------------------------------------------ *)

Record oracles := mkOr {
  perm_t : list nat; wing_t : nat;       (* for the target table after masking *)
  perm_a : list nat; wing_a : nat }.     (* for the antitarget table after masking *)

(* everything up to and including the subtraction of the reference *)
Definition fix_pre (c : cfg) (o : oracles) (target anti : list srow) (ref : list rrow)
  : fix_error + list brow :=
  match load_adjust c ref true (perm_t o) (wing_t o) target with
  | inl e => inl e
  | inr t =>
    match load_adjust c ref false (perm_a o) (wing_a o) anti with
    | inl e => inl e
    | inr a =>
        let all := match a with [] => t | _ => sort_brows (t ++ a) end in
        inr (map (fun b => bset_log2 (Qred (blog2 b - r_log2 (snd b))) b) all)
    end
  end.

(* the weights do not depend on log2, so attaching them after the final centring gives the
   same table as the code's order (apply_weights, then center_all(skip_low=True)) *)
Definition fix_post (c : cfg) (sqrtZ : Z -> Q) (var_t var_a : Q) (l : list brow) : list (brow * Q) :=
  apply_weights sqrtZ var_t var_a (center_all c true l).

(* [bmv2 l] = descriptives.biweight_midvariance(l) ** 2 *)
Definition do_fix_gen (bmv2 : list Q -> Q) (c : cfg) (o : oracles) (sqrtZ : Z -> Q)
  (target anti : list srow) (ref : list rrow) : fix_error + list (brow * Q) :=
  match fix_pre c o target anti ref with
  | inl e => inl e
  | inr l => inr (fix_post c sqrtZ (bmv2 (class_residuals c false l)) (bmv2 (class_residuals c true l)) l)
  end.

(* descriptives.biweight_midvariance(a) ** 2 on a NaN-free array of at least two values: a copy of
   Model/Descriptives.bivar_sq_core with the guard as it is in /repo since 2c65616 (fall back on the
   MAD only when no kept deviation is non-zero). *)
Definition fix_bivar_sq (a : list Q) : Q :=
  let initial := biweight_location_core a None in
  let d := sub_all initial a in
  let mad := median (abs_all d) in
  let scale := qmax2 (qmul BIVAR_C mad) BIVAR_EPS in
  let dw := filter (fun p => qlt_b (qabs (snd p)) BIVAR_MASK_BOUND)
                   (combine d (map (fun di => qdiv di scale) d)) in
  if forallb (fun p => qeq_b (snd p) 0) dw then qsq (qmul mad BIVAR_MAD_SCALE)
  else
    let n := qofnat (length dw) in
    let num := qmul n (qsum (map (fun p => qmul (qsq (fst p))
                                              (qpow (qsub 1 (qsq (snd p))) (Z.to_nat BIVAR_NUM_POW))) dw)) in
    let den := qsum (map (fun p => qmul (qsub 1 (qsq (snd p)))
                                        (qsub 1 (qmul BIVAR_DEN_COEF (qsq (snd p))))) dw) in
    qdiv num (qsq den).

(* the on_array(0) decorator: one value gives the default; the empty array gives NaN in the code
   (every weight of that class is then NaN -- known finding 'c04-weight-nan-no-usable-target');
   0 here, the theorems about weights assume a usable bin in each class *)
Definition var_of (a : list Q) : Q :=
  match a with
  | [] => 0
  | [_] => qsq BIVAR_DEFAULT
  | _ => fix_bivar_sq a
  end.

Definition do_fix := do_fix_gen var_of.

(* number of rows center_by_window sees for one sample table (what the permutation and the
   wing are drawn for); None when match_ref raises *)
Definition masked_len (c : cfg) (ref : list rrow) (samp : list srow) : option nat :=
  match samp with
  | [] => Some O
  | _ => match match_ref ref (presort samp) with
         | inl _ => None
         | inr m => Some (length (mask_bad c m))
         end
  end.
