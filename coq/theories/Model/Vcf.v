(* Model of skgenome/tabio/vcfio.py (read_vcf, _choose_samples, _parse_records,
   _extract_genotype, _get_alt_count, _get_end) followed by the sort of
   tabio.read.  The input is the STRUCTURED VCF (what pysam hands to the code):
   header = sample list + (Derived, Original) PEDIGREE pairs; a record = contig,
   1-based POS, REF, ALT list, FILTER list, INFO flags/DP/END, the FORMAT keys
   present (AD? DP?) and, per sample of the header, GT / AD / DP with missing
   values as None.  No proofs here. *)
From CNV Require Import Base.Prelude Base.Str.
From CNV Require Gen.VcfDefaults.

(* ---- numbers ----------------------------------------------------------- *)

(* a float column cell: a finite rational, +inf (count > 0 over depth 0: fillna
   fills NaN only), or NaN (the reader fills every NaN with 0; NaN only arises in
   Model/VBaf.v: TumorBoost of t = n = 1, and the BAF of a range without a hit) *)
Inductive xq := Fin (q : Q) | PInf | XNaN.

Definition Qlt_bool (a b : Q) : bool := negb (Qle_bool b a).
Definition qdiv (a b : Q) : Q := Qred (a / b).

Inductive res (A : Type) := Ok (a : A) | Fail (e : string).
Arguments Ok {A} a.
Arguments Fail {A} e.

Definition IndexError : string := "IndexError".

(* ---- structured VCF ---------------------------------------------------- *)

Record scall := { s_gt : list (option Z); s_ad : list (option Z); s_dp : option Z }.

Record vrec := {
  r_chrom : string;
  r_ckey : Z;                    (* rank of the contig in genome order (sorter_chrom is C08's) *)
  r_pos : Z;                     (* 1-based POS as written in the file *)
  r_ref : string;
  r_alts : list string;
  r_filter : list string;        (* "." -> [] *)
  r_somatic : bool;              (* INFO flag SOMATIC *)
  r_info_dp : option Z;
  r_info_end : option Z;         (* present in the input, see get_end *)
  r_has_ad : bool;               (* FORMAT contains AD *)
  r_has_dp : bool;               (* FORMAT contains DP *)
  r_calls : list scall           (* one per header sample, header order *)
}.

Record header := { h_samples : list string; h_peds : list (string * string) }.

Inductive sel := SelNone | SelIdx (i : Z) | SelName (s : string).

(* ---- _choose_samples --------------------------------------------------- *)

Definition truthy (o : option string) : bool :=
  match o with Some s => negb (String.eqb s "") | None => false end.

Definition opt_str_eqb (a b : option string) : bool :=
  match a, b with
  | Some x, Some y => String.eqb x y
  | None, None => true
  | _, _ => false
  end.

(* vcf_samples[i] with Python's negative indices *)
Definition resolve (samples : list string) (s : sel) : res (option string) :=
  match s with
  | SelNone => Ok None
  | SelName n => Ok (Some n)
  | SelIdx i =>
      let n := Z.of_nat (length samples) in
      if (- n <=? i) && (i <? n) then
        match nth_error samples (Z.to_nat (if i <? 0 then i + n else i)) with
        | Some x => Ok (Some x)
        | None => Fail IndexError
        end
      else Fail IndexError
  end.

Definition count_str (s : string) (l : list string) : Z :=
  Z.of_nat (length (filter (String.eqb s) l)).

Definition pair_t := (option string * option string)%type.

Definition ids_of (pairs : list pair_t) : list string :=
  flat_map (fun p => (match fst p with Some s => [s] | None => [] end)
                      ++ (match snd p with Some s => [s] | None => [] end)) pairs.

Definition candidate_pairs (h : header) (sid nid : option string) : list pair_t :=
  let pairs :=
    match h_peds h with
    | _ :: _ => map (fun p => (Some (fst p), Some (snd p))) (h_peds h)
    | [] =>
        if truthy nid then
          map (fun o => (Some o, nid))
              (filter (fun s => negb (opt_str_eqb (Some s) nid)) (h_samples h))
        else map (fun s => (Some s, None)) (h_samples h)
    end in
  let pairs := if truthy sid then filter (fun p => opt_str_eqb (fst p) sid) pairs else pairs in
  match pairs with [] => [(sid, None)] | _ => pairs end.

Definition choose_samples (h : header) (ssel nsel : sel) : res pair_t :=
  match resolve (h_samples h) ssel with
  | Fail e => Fail e
  | Ok sid =>
  match resolve (h_samples h) nsel with
  | Fail e => Fail e
  | Ok nid =>
      let missing (o : option string) :=
        truthy o && negb (match o with Some s => mem_string s (h_samples h) | None => true end) in
      if missing sid || missing nid then Fail IndexError
      else
        let pairs := candidate_pairs h sid nid in
        if forallb (fun s => count_str s (h_samples h) =? 1) (ids_of pairs)
        then Ok (hd (sid, None) pairs)
        else Fail IndexError
  end end.

(* ---- _extract_genotype / _get_alt_count -------------------------------- *)

Definition optZ_eqb (a b : option Z) : bool :=
  match a, b with
  | Some x, Some y => x =? y
  | None, None => true
  | _, _ => false
  end.

Fixpoint dedup (l : list (option Z)) : list (option Z) :=
  match l with
  | [] => []
  | x :: t => if existsb (optZ_eqb x) t then dedup t else x :: dedup t
  end.

(* set(sample["GT"]): more than one distinct entry (a missing allele counts as
   an entry) -> 0.5; the single entry == 0 -> 0.0; otherwise (1, or missing) -> 1.0 *)
Definition zygosity_of (gt : list (option Z)) : Q :=
  let d := dedup gt in
  if VcfDefaults.gt_distinct_gt <? Z.of_nat (length d) then VcfDefaults.zyg_het
  else match d with
       | Some a :: _ => if a =? VcfDefaults.gt_ref_allele then VcfDefaults.zyg_ref else VcfDefaults.zyg_hom
       | _ => VcfDefaults.zyg_hom
       end.

(* _safesum: sum(filter(None, tup)) *)
Fixpoint safesum (l : list (option Z)) : Z :=
  match l with
  | [] => 0
  | Some x :: t => x + safesum t
  | None :: t => safesum t
  end.

(* None = NaN / None cell *)
Definition depth_of (r : vrec) (c : scall) : option Z :=
  if r_has_dp r then s_dp c
  else if r_has_ad r then Some (safesum (s_ad c))
  else r_info_dp r.

Definition ad_is_missing (ad : list (option Z)) : bool :=
  match ad with [None] => true | _ => false end.

Definition alt_count_of (r : vrec) (c : scall) : option Z :=
  if r_has_ad r && negb (ad_is_missing (s_ad c)) then
    if VcfDefaults.ad_alt_index <? Z.of_nat (length (s_ad c))
    then nth (Z.to_nat VcfDefaults.ad_alt_index) (s_ad c) None
    else Some 0
  else None.

(* table["alt_count"] / table["depth"], then fillna(0.0) *)
Definition freq_of (count depth : option Z) : xq :=
  match count, depth with
  | Some c, Some d =>
      if d =? 0 then (if c =? 0 then Fin VcfDefaults.fill_value else PInf)
      else Fin (qdiv (inject_Z c) (inject_Z d))
  | _, _ => Fin VcfDefaults.fill_value
  end.

Record gcols := { g_zyg : Q; g_depth : Z; g_count : Z; g_freq : xq }.

Definition fillZ (o : option Z) : Z := match o with Some z => z | None => 0 end.

Definition geno (r : vrec) (c : scall) : gcols :=
  let d := depth_of r c in
  let a := alt_count_of r c in
  {| g_zyg := zygosity_of (s_gt c); g_depth := fillZ d; g_count := fillZ a; g_freq := freq_of a d |}.

(* no sample selected at all: INFO DP (else 0), no AF in our files *)
Definition geno_info (r : vrec) : gcols :=
  {| g_zyg := VcfDefaults.zyg_ref; g_depth := fillZ (r_info_dp r); g_count := 0; g_freq := Fin VcfDefaults.fill_value |}.

(* ---- rows -------------------------------------------------------------- *)

Record vrow := {
  v_chrom : string; v_ckey : Z; v_start : Z; v_end : Z; v_ref : string; v_alt : string;
  v_somatic : bool; v_t : gcols; v_n : option gcols }.

(* _get_end: pysam reserves END ("END" in record.info is always False), so the
   structural-variant branch is dead and the end is start + len(alt) *)
Definition get_end (start : Z) (alt : string) (info_end : option Z) : Z :=
  start + Z.of_nat (String.length alt).

Definition real_alts (r : vrec) : list string :=
  filter (fun a => negb (String.eqb a VcfDefaults.non_ref_alt)) (r_alts r).

Definition rows_of (r : vrec) (t : gcols) (n : option gcols) : list vrow :=
  let start := r_pos r - 1 in
  map (fun alt =>
         {| v_chrom := r_chrom r; v_ckey := r_ckey r; v_start := start;
            v_end := get_end start alt (r_info_end r); v_ref := r_ref r; v_alt := alt;
            v_somatic := r_somatic r; v_t := t; v_n := n |})
      (real_alts r).

Fixpoint index_of (s : string) (l : list string) : option nat :=
  match l with
  | [] => None
  | x :: t => if String.eqb s x then Some O
              else match index_of s t with Some i => Some (S i) | None => None end
  end.

Definition rejected (r : vrec) : bool :=
  existsb (fun f => negb (mem_string f VcfDefaults.pass_filters)) (r_filter r).

(* one record -> its rows; None = the record lacks the selected sample's call (malformed input) *)
Definition record_rows (sidx : option nat) (nidx : option nat) (r : vrec) : option (list vrow) :=
  match sidx with
  | None => Some (rows_of r (geno_info r) None)
  | Some i =>
      match nth_error (r_calls r) i with
      | None => None
      | Some c =>
          match nidx with
          | None => Some (rows_of r (geno r c) None)
          | Some j =>
              match nth_error (r_calls r) j with
              | None => None
              | Some cn => Some (rows_of r (geno r c) (Some (geno r cn)))
              end
          end
      end
  end.

Fixpoint all_rows (sidx nidx : option nat) (skip_reject : bool) (recs : list vrec) : option (list vrow) :=
  match recs with
  | [] => Some []
  | r :: t =>
      if skip_reject && rejected r then all_rows sidx nidx skip_reject t
      else match record_rows sidx nidx r, all_rows sidx nidx skip_reject t with
           | Some a, Some b => Some (a ++ b)
           | _, _ => None
           end
  end.

(* ---- filters ----------------------------------------------------------- *)

Definition dkey (r : vrow) : Z :=
  match v_n r with Some n => g_depth n | None => g_depth (v_t r) end.

Definition depth_filter (min_depth : option Z) (rows : list vrow) : list vrow :=
  match min_depth with
  | None => rows
  | Some m =>
      if m =? 0 then rows
      else if existsb (fun r => negb (g_depth (v_t r) =? 0)) rows
      then filter (fun r => m <=? dkey r) rows
      else rows
  end.

Definition somatic_filter (skip_somatic : bool) (rows : list vrow) : list vrow :=
  if skip_somatic then filter (fun r => negb (v_somatic r)) rows else rows.

(* ---- GenomicArray.sort: stable by (chromosome key, start, end) ---------- *)

Definition row_le (a b : vrow) : bool :=
  if v_ckey a <? v_ckey b then true
  else if v_ckey b <? v_ckey a then false
  else if v_start a <? v_start b then true
  else if v_start b <? v_start a then false
  else v_end a <=? v_end b.

Section Isort.
Context {A : Type} (le : A -> A -> bool).
Fixpoint insert_sorted (x : A) (l : list A) : list A :=
  match l with
  | [] => [x]
  | y :: t => if le x y then x :: l else y :: insert_sorted x t
  end.
Definition isort (l : list A) : list A := fold_right insert_sorted [] l.
End Isort.

Definition sort_rows (rows : list vrow) : list vrow := isort row_le rows.

(* ---- read_vcf + tabio.read ---------------------------------------------- *)

(* a file without records gives a table without rows that still has every column
   (value columns are made numeric right after DataFrame.from_records, so the
   boolean filters select rows, never columns): paired or not as chosen *)
Record vtable := { t_paired : bool; t_rows : list vrow }.

Definition sample_index (h : header) (o : option string) : option nat :=
  match o with Some s => index_of s (h_samples h) | None => None end.

Definition read_vcf (h : header) (recs : list vrec) (ssel nsel : sel)
    (min_depth : option Z) (skip_reject skip_somatic : bool) : res vtable :=
  match choose_samples h ssel nsel with
  | Fail e => Fail e
  | Ok (sid, nid) =>
      let nid' := if truthy nid then nid else None in
      match all_rows (sample_index h sid) (sample_index h nid') skip_reject recs with
      | None => Fail "decode"
      | Some rows =>
          Ok {| t_paired := truthy nid;
                t_rows := sort_rows (somatic_filter skip_somatic (depth_filter min_depth rows)) |}
      end
  end.
