(* Model of cnvlib/cmdutil.py load_het_snps, cnvlib/vary.py (zygosity_from_freq,
   heterozygous, baf_by_ranges, mirrored_baf, tumor_boost, _mirrored_baf,
   _tumor_boost), skgenome/intersect.py into_ranges (outer mode, one value per
   range) and cnvlib/call.py rescale_baf.  Rows carry their pandas index label:
   tabio.read leaves labels 0..n-1, boolean filtering keeps the old labels, and
   the TumorBoost result is a Series carrying the same labels as the table it was
   computed from.  No proofs here. *)
From CNV Require Import Base.Prelude Base.Str Model.Vcf.

(* ---- numeric helpers ---------------------------------------------------- *)

Definition qsub (a b : Q) : Q := Qred (a - b).
Definition qadd (a b : Q) : Q := Qred (a + b).
Definition qmul (a b : Q) : Q := Qred (a * b).
Definition qabs (a : Q) : Q := if Qle_bool 0%Q a then a else Qred (- a).

Definition qsort (l : list Q) : list Q := isort Qle_bool l.

(* pandas Series.median / np.nanmedian of a NaN-free vector *)
Definition median (l : list Q) : option Q :=
  let s := qsort l in
  let n := length s in
  match n with
  | O => None
  | _ =>
      if Nat.even n
      then Some (qdiv (qadd (nth (n / 2 - 1) s 0%Q) (nth (n / 2) s 0%Q)) (2 # 1))
      else Some (nth (n / 2) s 0%Q)
  end.

(* ---- zygosity_from_freq -------------------------------------------------- *)

Definition xq_ltb (a : xq) (t : Q) : bool :=
  match a with Fin q => Qlt_bool q t | PInf => false | XNaN => false end.
Definition xq_geb (a : xq) (t : Q) : bool :=
  match a with Fin q => Qle_bool t q | PInf => true | XNaN => false end.

Definition zyg_from_freq (het hom : Q) (f : xq) : Q :=
  if xq_ltb f het then VcfDefaults.zfreq_ref else if xq_geb f hom then VcfDefaults.zfreq_hom else VcfDefaults.zfreq_mid.

Definition rezyg_g (het hom : Q) (g : gcols) : gcols :=
  {| g_zyg := zyg_from_freq het hom (g_freq g); g_depth := g_depth g; g_count := g_count g;
     g_freq := g_freq g |}.

Definition rezyg (het hom : Q) (r : vrow) : vrow :=
  {| v_chrom := v_chrom r; v_ckey := v_ckey r; v_start := v_start r; v_end := v_end r;
     v_ref := v_ref r; v_alt := v_alt r; v_somatic := v_somatic r;
     v_t := rezyg_g het hom (v_t r); v_n := option_map (rezyg_g het hom) (v_n r) |}.

(* assert 0.0 <= het_freq <= hom_freq <= 1.0 *)
Definition zfreq_ok (het hom : Q) : bool :=
  Qle_bool VcfDefaults.zfreq_het_default het && Qle_bool het hom && Qle_bool hom VcfDefaults.zfreq_hom_default.

(* ---- heterozygous -------------------------------------------------------- *)

Definition lrow := (Z * vrow)%type.       (* pandas index label, row *)

Fixpoint label_from (i : Z) (rows : list vrow) : list lrow :=
  match rows with [] => [] | r :: t => (i, r) :: label_from (i + 1) t end.

(* the genotype that decides heterozygosity: the normal's when paired *)
Definition germ_zyg (r : vrow) : Q :=
  match v_n r with Some n => g_zyg n | None => g_zyg (v_t r) end.

Definition is_het_z (z : Q) : bool :=
  negb (Qeq_bool z VcfDefaults.het_excl_lo) && negb (Qeq_bool z VcfDefaults.het_excl_hi).

Definition heterozygous (rows : list lrow) : list lrow :=
  let het := filter (fun lr => is_het_z (germ_zyg (snd lr))) rows in
  match het with [] => rows | _ => het end.

(* (zygosity != 0.0) & (n_zygosity == 0.0) *)
Definition inferred_somatic (r : vrow) : bool :=
  match v_n r with
  | Some n => negb (Qeq_bool (g_zyg (v_t r)) 0%Q) && Qeq_bool (g_zyg n) 0%Q
  | None => false
  end.

(* ---- _tumor_boost ------------------------------------------------------- *)

Definition boost_q (t n : Q) : xq :=
  if Qlt_bool t n then Fin (qdiv (qmul VcfDefaults.boost_half t) n)
  else
    let dn := qsub VcfDefaults.boost_one n in
    if Qeq_bool dn 0%Q then (if Qeq_bool (qsub VcfDefaults.boost_one t) 0%Q then XNaN else PInf)
    else Fin (qsub VcfDefaults.boost_one (qdiv (qmul VcfDefaults.boost_half (qsub VcfDefaults.boost_one t)) dn)).

(* non-finite inputs are outside the model (the harness never boosts them): NaN *)
Definition boost_x (t n : xq) : xq :=
  match t, n with Fin a, Fin b => boost_q a b | _, _ => XNaN end.

Definition boost_row (r : vrow) : xq :=
  match v_n r with Some n => boost_x (g_freq (v_t r)) (g_freq n) | None => XNaN end.

Definition set_freq (r : vrow) (f : xq) : vrow :=
  {| v_chrom := v_chrom r; v_ckey := v_ckey r; v_start := v_start r; v_end := v_end r;
     v_ref := v_ref r; v_alt := v_alt r; v_somatic := v_somatic r;
     v_t := {| g_zyg := g_zyg (v_t r); g_depth := g_depth (v_t r); g_count := g_count (v_t r);
               g_freq := f |};
     v_n := v_n r |}.

(* varr["alt_freq"] = varr.tumor_boost()  /  add_columns(alt_freq=cnarr.tumor_boost()):
   the boosted Series carries the row labels of the table it was computed from, so
   the label-aligned assignment gives every row the value of ITS OWN frequencies,
   whatever rows were dropped before (labels are unique: tabio.read leaves 0..n-1 and
   filtering only removes some) *)
Definition boost_assign (rows : list lrow) : list lrow :=
  map (fun lr => (fst lr, set_freq (snd lr) (boost_row (snd lr)))) rows.

(* ---- load_het_snps ------------------------------------------------------- *)

Definition all_normal_ref (rows : list vrow) : bool :=
  forallb (fun r => match v_n r with Some n => Qeq_bool (g_zyg n) 0%Q | None => true end) rows.

Definition effective_zfreq (paired : bool) (zf : option Q) (rows : list vrow) : option Q :=
  match zf with
  | Some z => Some z
  | None => if paired && all_normal_ref rows then Some VcfDefaults.fallback_zygosity_freq else None
  end.

(* everything after tabio.read, on the table it returned *)
Definition load_het_core (paired : bool) (zf : option Q) (boost : bool) (rows : list vrow)
  : res (list lrow) :=
  let step1 :=
    match effective_zfreq paired zf rows with
    | None => Ok rows
    | Some f =>
        let hom := qsub 1%Q f in
        if zfreq_ok f hom then Ok (map (rezyg f hom) rows) else Fail "AssertionError"
    end in
  match step1 with
  | Fail e => Fail e
  | Ok rows1 =>
      let lab := label_from 0 rows1 in
      let lab2 := if paired then filter (fun lr => negb (inferred_somatic (snd lr))) lab else lab in
      let lab3 := heterozygous lab2 in
      if boost then (if paired then Ok (boost_assign lab3) else Fail "ValueError")
      else Ok lab3
  end.

(* a variant table as the later stages see it *)
Record htable := { ht_paired : bool; ht_rows : list lrow }.

Definition load_het_snps (h : header) (recs : list vrec) (ssel nsel : sel)
    (min_depth : option Z) (zf : option Q) (boost : bool) : res htable :=
  match read_vcf h recs ssel nsel min_depth false VcfDefaults.het_skip_somatic with
  | Fail e => Fail e
  | Ok t =>
      match load_het_core (t_paired t) zf boost (t_rows t) with
      | Fail e => Fail e
      | Ok rows => Ok {| ht_paired := t_paired t; ht_rows := rows |}
      end
  end.

(* ---- _mirrored_baf, into_ranges, baf_by_ranges --------------------------- *)

Definition mirror (above : bool) (v : Q) : Q :=
  let shift := qabs (qsub v VcfDefaults.mirror_center) in
  if above then qadd VcfDefaults.mirror_center shift else qsub VcfDefaults.mirror_center shift.

Fixpoint finite_of (l : list xq) : list Q :=
  match l with
  | [] => []
  | Fin q :: t => q :: finite_of t
  | _ :: t => finite_of t
  end.

(* vals.median() > 0.5 (False for an all-NaN vector) *)
Definition majority_above (vals : list Q) : bool :=
  match median vals with Some m => Qlt_bool VcfDefaults.mirror_center m | None => false end.

Definition direction (above_half : option bool) (vals : list Q) : bool :=
  match above_half with Some b => b | None => majority_above vals end.

(* _mirrored_baf on one cell; a non-finite frequency is outside the model (NaN) *)
Definition mirror_x (above : bool) (v : xq) : xq :=
  match v with Fin q => Fin (mirror above q) | _ => XNaN end.

(* series2value of into_ranges with summary_func = np.nanmedian: no hit -> the default
   (NaN); ONE hit -> that value as it is; otherwise the median of the non-NaN values *)
Definition summary (hits : list xq) : xq :=
  match hits with
  | [] => XNaN
  | [x] => x
  | _ => match median (finite_of hits) with Some m => Fin m | None => XNaN end
  end.

(* series2value of into_ranges with summarize = nanmedian o _mirrored_baf(., None):
   one hit is returned as it is (summarize is not called) -- which is that value
   mirrored to its own side; otherwise the median of the non-NaN values mirrored in
   the direction of their majority *)
Definition summary_majority (hits : list xq) : xq :=
  match hits with
  | [] => XNaN
  | [x] => x
  | _ =>
      let fin := finite_of hits in
      match median (map (mirror (majority_above fin)) fin) with
      | Some m => Fin m
      | None => XNaN
      end
  end.

(* the value of one range from the frequencies of the variants it overlaps:
   above_half given -> every frequency is mirrored to that side FIRST (also a single
   one), then summarised; not given -> majority direction per range *)
Definition series2value (above_half : option bool) (hits : list xq) : xq :=
  match above_half with
  | Some b => summary (map (mirror_x b) hits)
  | None => summary_majority hits
  end.

Definition grange := (string * Z * Z)%type.

(* "outer" mode of iter_slices: rows of the same chromosome overlapping [s, e) *)
Definition overlaps (rg : grange) (r : vrow) : bool :=
  let '(c, s, e) := rg in
  String.eqb (v_chrom r) c && (s <? v_end r) && (v_start r <? e).

Definition hits_of (rows : list lrow) (rg : grange) : list xq :=
  map (fun lr => g_freq (v_t (snd lr))) (filter (fun lr => overlaps rg (snd lr)) rows).

(* cnarr.add_columns(alt_freq=_mirrored_baf(cnarr["alt_freq"], above_half)): element-wise *)
Definition mirror_assign (above : bool) (rows : list lrow) : list lrow :=
  map (fun lr => (fst lr, set_freq (snd lr) (mirror_x above (g_freq (v_t (snd lr)))))) rows.

(* None = into_ranges returned `dest` itself (no range at all); an empty source
   gives the default (NaN) for every range, which is what the map yields too *)
Definition baf_by_ranges (paired : bool) (rows : list lrow) (ranges : list grange)
    (above_half : option bool) (boost : bool) : option (list xq) :=
  let het := heterozygous rows in
  let src := if boost && paired then boost_assign het else het in
  match ranges with
  | [] => None
  | _ =>
      match above_half with
      | Some b => Some (map (fun rg => summary (hits_of (mirror_assign b src) rg)) ranges)
      | None => Some (map (fun rg => summary_majority (hits_of src rg)) ranges)
      end
  end.

Definition baf_by_ranges_t (t : htable) (ranges : list grange) (above_half : option bool)
    (boost : bool) : option (list xq) :=
  baf_by_ranges (ht_paired t) (ht_rows t) ranges above_half boost.

(* VariantArray.mirrored_baf: positional result over all rows *)
Definition mirrored_baf (paired : bool) (rows : list lrow) (above_half : option bool) (boost : bool)
  : list xq :=
  let vals := if boost && paired then map (fun lr => boost_row (snd lr)) rows
              else map (fun lr => g_freq (v_t (snd lr))) rows in
  map (mirror_x (direction above_half (finite_of vals))) vals.

(* ---- rescale_baf and the baf column of do_call --------------------------- *)

Definition rescale_baf (purity obs : Q) : Q :=
  qdiv (qsub obs (qmul VcfDefaults.normal_baf (qsub 1%Q purity))) purity.

Definition rescale_x (purity : Q) (v : xq) : xq :=
  match v with Fin q => Fin (rescale_baf purity q) | o => o end.

(* do_call: baf_by_ranges with the defaults, then `if purity and purity < 1.0` the rescaling *)
Definition mirrored_baf_t (t : htable) (above_half : option bool) (boost : bool) : list xq :=
  mirrored_baf (ht_paired t) (ht_rows t) above_half boost.

Definition call_baf (paired : bool) (rows : list lrow) (ranges : list grange) (purity : option Q)
  : option (list xq) :=
  match rows with
  | [] => None                                  (* `if variants:` is False: no baf column *)
  | _ =>
      match baf_by_ranges paired rows ranges None false with
      | None => None
      | Some b =>
          match purity with
          | Some p => if negb (Qeq_bool p 0%Q) && Qlt_bool p 1%Q then Some (map (rescale_x p) b) else Some b
          | None => Some b
          end
      end
  end.

(* ---- het_frac_by_ranges --------------------------------------------------------------------- *)

(* into_ranges(ranges, "is_het", nan, np.nanmean) over the indicator column
   (zygosity != 0.0) & (zygosity != 1.0) of the normal's (else the sample's) genotype:
   no overlapping variant -> NaN; one -> its indicator; else the mean of the indicators *)
Definition count_true (l : list bool) : Z := Z.of_nat (length (filter (fun b => b) l)).

Definition het_frac_value (hits : list bool) : xq :=
  match hits with
  | [] => XNaN
  | _ => Fin (qdiv (inject_Z (count_true hits)) (inject_Z (Z.of_nat (length hits))))
  end.

Definition het_flags (rows : list lrow) (rg : grange) : list bool :=
  map (fun lr => is_het_z (germ_zyg (snd lr))) (filter (fun lr => overlaps rg (snd lr)) rows).

Definition het_frac_by_ranges (rows : list lrow) (ranges : list grange) : option (list xq) :=
  match ranges with
  | [] => None
  | _ => Some (map (fun rg => het_frac_value (het_flags rows rg)) ranges)
  end.

(* ==== additions of the C18 extension (nothing above this line was changed) ===================== *)

(* ---- baf_by_ranges with ANY summary_func ------------------------------------------------------ *)

(* series2value of into_ranges for an arbitrary summary function f: no hit -> the default (NaN);
   ONE hit -> that value as it is (f is not called); otherwise f of the hits *)
Definition s2v_gen (f : list xq -> xq) (hits : list xq) : xq :=
  match hits with
  | [] => XNaN
  | [x] => x
  | _ => f hits
  end.

(* `summarize` of baf_by_ranges (above_half is None): f of the hits mirrored in the direction of the
   majority of THESE hits (vals.median() > 0.5 skips NaN) *)
Definition summarize_gen (f : list xq -> xq) (hits : list xq) : xq :=
  f (map (mirror_x (majority_above (finite_of hits))) hits).

Definition baf_by_ranges_gen (f : list xq -> xq) (paired : bool) (rows : list lrow) (ranges : list grange)
    (above_half : option bool) (boost : bool) : option (list xq) :=
  let het := heterozygous rows in
  let src := if boost && paired then boost_assign het else het in
  match ranges with
  | [] => None
  | _ =>
      match above_half with
      | Some b => Some (map (fun rg => s2v_gen f (hits_of (mirror_assign b src) rg)) ranges)
      | None => Some (map (fun rg => s2v_gen (summarize_gen f) (hits_of src rg)) ranges)
      end
  end.

(* the summary functions the check runs the code with: np.nanmedian (the default), np.nanmean,
   np.nanmin, np.nanmax -- each over the non-NaN values, NaN when there is none *)
Definition nanmedian_x (hits : list xq) : xq :=
  match median (finite_of hits) with Some m => Fin m | None => XNaN end.

Definition qsum (l : list Q) : Q := fold_right qadd 0%Q l.

Definition nanmean_x (hits : list xq) : xq :=
  match finite_of hits with
  | [] => XNaN
  | fin => Fin (qdiv (qsum fin) (inject_Z (Z.of_nat (length fin))))
  end.

Definition qmin2 (a b : Q) : Q := if Qle_bool a b then a else b.
Definition qmax2 (a b : Q) : Q := if Qle_bool a b then b else a.

Definition nanmin_x (hits : list xq) : xq :=
  match finite_of hits with [] => XNaN | x :: t => Fin (fold_left qmin2 t x) end.
Definition nanmax_x (hits : list xq) : xq :=
  match finite_of hits with [] => XNaN | x :: t => Fin (fold_left qmax2 t x) end.

(* ---- the elementwise formulas in IEEE arithmetic (what numpy returns on 0, 1, NaN, inf) --------- *)

(* an IEEE double as the formulas see it: a finite number (exact), +inf, -inf or NaN.  Zero has no
   sign here: every zero these formulas divide by is +0 (x - x, 0/d, fillna(0.0)). *)
Inductive xr := RFin (q : Q) | RPInf | RNInf | RNaN.

Definition xr_of_xq (x : xq) : xr :=
  match x with Fin q => RFin q | PInf => RPInf | XNaN => RNaN end.

(* sign of a non-NaN value *)
Definition xr_sign (a : xr) : comparison :=
  match a with RFin q => Qcompare q 0%Q | RPInf => Gt | RNInf => Lt | RNaN => Eq end.

Definition xr_opp (a : xr) : xr :=
  match a with RFin q => RFin (Qred (- q)) | RPInf => RNInf | RNInf => RPInf | RNaN => RNaN end.

Definition xr_add (a b : xr) : xr :=
  match a, b with
  | RNaN, _ => RNaN
  | _, RNaN => RNaN
  | RFin x, RFin y => RFin (qadd x y)
  | RPInf, RNInf => RNaN
  | RNInf, RPInf => RNaN
  | RPInf, _ => RPInf
  | _, RPInf => RPInf
  | RNInf, _ => RNInf
  | _, RNInf => RNInf
  end.

Definition xr_sub (a b : xr) : xr := xr_add a (xr_opp b).

Definition sign_mul (a b : comparison) : xr :=
  match a, b with
  | Eq, _ => RNaN
  | _, Eq => RNaN
  | Gt, Gt => RPInf
  | Lt, Lt => RPInf
  | _, _ => RNInf
  end.

Definition xr_mul (a b : xr) : xr :=
  match a, b with
  | RNaN, _ => RNaN
  | _, RNaN => RNaN
  | RFin x, RFin y => RFin (qmul x y)
  | _, _ => sign_mul (xr_sign a) (xr_sign b)          (* inf * 0 = NaN *)
  end.

Definition xr_div (a b : xr) : xr :=
  match a, b with
  | RNaN, _ => RNaN
  | _, RNaN => RNaN
  | RFin x, RFin y =>
      if Qeq_bool y 0%Q
      then match Qcompare x 0%Q with Eq => RNaN | Gt => RPInf | Lt => RNInf end     (* x / +0 *)
      else RFin (qdiv x y)
  | RFin _, _ => RFin 0%Q                                  (* finite / inf *)
  | _, RFin y => match Qcompare y 0%Q with Lt => xr_opp a | _ => a end        (* inf / finite, inf / +0 *)
  | _, _ => RNaN                                            (* inf / inf *)
  end.

Definition xr_abs (a : xr) : xr :=
  match a with RFin q => RFin (qabs q) | RPInf => RPInf | RNInf => RPInf | RNaN => RNaN end.

(* a < b; False as soon as one side is NaN *)
Definition xr_ltb (a b : xr) : bool :=
  match a, b with
  | RNaN, _ => false
  | _, RNaN => false
  | RFin x, RFin y => Qlt_bool x y
  | RNInf, RNInf => false
  | RNInf, _ => true
  | _, RPInf => match a with RPInf => false | _ => true end
  | _, _ => false
  end.

(* _tumor_boost on one element, as numpy evaluates it *)
Definition boost_ieee (t n : xr) : xr :=
  let half := RFin VcfDefaults.boost_half in
  let one := RFin VcfDefaults.boost_one in
  if xr_ltb t n then xr_div (xr_mul half t) n
  else xr_sub one (xr_div (xr_mul half (xr_sub one t)) (xr_sub one n)).

(* _mirrored_baf on one element with a given direction, as numpy evaluates it *)
Definition mirror_ieee (above : bool) (v : xr) : xr :=
  let c := RFin VcfDefaults.mirror_center in
  let shift := xr_abs (xr_sub v c) in
  if above then xr_add c shift else xr_sub c shift.

(* pandas Series.median (NaN skipped) of IEEE values: -inf < finite < +inf; the mean of the two
   middle values when their number is even (inf + -inf = NaN) *)
Definition xr_leb (a b : xr) : bool :=
  match a, b with
  | RNInf, _ => true
  | _, RPInf => true
  | RFin x, RFin y => Qle_bool x y
  | _, _ => false
  end.

Fixpoint non_nan (l : list xr) : list xr :=
  match l with
  | [] => []
  | RNaN :: t => non_nan t
  | x :: t => x :: non_nan t
  end.

Definition median_r (l : list xr) : xr :=
  let s := isort xr_leb (non_nan l) in
  let n := length s in
  match n with
  | O => RNaN
  | _ =>
      if Nat.even n
      then xr_div (xr_add (nth (n / 2 - 1) s RNaN) (nth (n / 2) s RNaN)) (RFin (2 # 1))
      else nth (n / 2) s RNaN
  end.

(* VariantArray.mirrored_baf over a table that may hold infinite frequencies / TumorBoost values *)
Definition boost_row_r (r : vrow) : xr :=
  match v_n r with
  | Some n => boost_ieee (xr_of_xq (g_freq (v_t r))) (xr_of_xq (g_freq n))
  | None => RNaN
  end.

Definition mirrored_baf_r (paired : bool) (rows : list lrow) (above_half : option bool) (boost : bool)
  : list xr :=
  let vals := if boost && paired then map (fun lr => boost_row_r (snd lr)) rows
              else map (fun lr => xr_of_xq (g_freq (v_t (snd lr)))) rows in
  let above := match above_half with
               | Some b => b
               | None => xr_ltb (RFin VcfDefaults.mirror_center) (median_r vals)
               end in
  map (mirror_ieee above) vals.
