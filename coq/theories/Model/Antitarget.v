(* Model of cnvlib/antitarget.py (do_antitarget, get_antitargets,
   drop_noncanonical_contigs, compare_chrom_names, guess_chromosome_regions) on
   top of the C06 interval models and the genome-table layer of Model/Target.v,
   as the code is now.  The contig-name rule is Model.Access.is_canonical_contig_name
   (C13).  No proofs here. *)
From CNV Require Import Base.Prelude Base.Str Model.IvRow Model.IvCombine Model.Intervals
  Model.Chromsort Model.Access Model.Target.
From Coq Require Import Qround.
From CNV Require Gen.BinsDefaults.

(* GenomicArray.resize_ranges(bp) without chrom_sizes, whole table *)
Definition gresize (bp : Z) (t : list grow) : list grow := resize bp None t.

(* GenomicArray.subtract: `if not len(other): return table`; otherwise the keeper
   rows are visited chromosome by chromosome in order of first occurrence
   (by_shared_chroms / groupby(sort=False)), each against the rows of `other` on
   the same chromosome (none: the keeper is kept as it is) *)
Definition gsubtract (a b : list grow) : list grow :=
  match b with
  | [] => a
  | _ => flat_map (fun c => subtract (filter (on c) a) (filter (on c) b)) (chroms_of a)
  end.

(* compare_chrom_names: Model/Target.v (do_target's annotation step calls it too) *)

Fixpoint max_len (l : list string) : Z :=
  match l with [] => 0 | x :: t => Z.max (slen x) (max_len t) end.

(* the chromosomes drop_noncanonical_contigs removes from `accessible` *)
Definition chroms_to_skip (access_chroms target_chroms : list string) : list string :=
  let untgt := filter (fun c => negb (mem_string c target_chroms)) access_chroms in
  if existsb is_canonical_contig_name target_chroms
  then filter (fun c => negb (is_canonical_contig_name c)) untgt
  else filter (fun c => max_len target_chroms <? slen c) untgt.

Definition drop_noncanonical (access targets : list grow) : option (list grow) :=
  match compare_chrom_names access targets with
  | None => None
  | Some (ac, tc) =>
      let skip := chroms_to_skip ac tc in
      Some (filter (fun r => negb (mem_string (chrom r) skip)) access)
  end.

(* guess_chromosome_regions: one row per target chromosome (first-occurrence
   order), from telomere_size to the end of the chromosome's LAST row *)
Definition last_end (t : list grow) : Z :=
  match last_opt t with Some r => hi r | None => 0 end.

Definition guess_regions (targets : list grow) (telomere : Z) : list grow :=
  map (fun c => (telomere, last_end (filter (on c) targets), (c, EmptyString))) (chroms_of targets).

(* 2 ** MIN_REF_COVERAGE for an integral exponent (None otherwise: a libm oracle
   would be needed; the generated constant is -5) *)
Definition pow_int (b : Z) (e : Q) : option Q :=
  match Qden e with
  | xH => Some (if 0 <=? Qnum e then inject_Z (b ^ Qnum e) else Qinv (inject_Z (b ^ (- Qnum e))))
  | _ => None
  end.

(* int(x): truncation towards zero *)
Definition trunc (x : Q) : Z := if Qle_bool 0 x then Qfloor x else Qceiling x.

(* 2 * int(avg_bin_size * (2 ** MIN_REF_COVERAGE)) *)
Definition default_min_size (avg : Q) : option Z :=
  match pow_int Gen.BinsDefaults.min_size_base Gen.BinsDefaults.MIN_REF_COVERAGE with
  | Some p => Some (Gen.BinsDefaults.min_size_factor * trunc (Qred (avg * p)))
  | None => None
  end.

Definition pad_size : Z := Gen.BinsDefaults.pad_factor * Gen.BinsDefaults.INSERT_SIZE.

Definition set_gene (g : string) (r : grow) : grow := (lo r, hi r, (chrom r, g)).

(* the accessible regions get_antitargets works with: Some (inl msg) never; None = ValueError *)
Definition effective_access (targets : list grow) (access : option (list grow)) : option (list grow) :=
  match access with
  | Some ((_ :: _) as acc) => drop_noncanonical acc targets
  | _ => Some (guess_regions targets Gen.BinsDefaults.TELOMERE_SIZE)
  end.

Definition get_antitargets (targets : list grow) (access : option (list grow)) (avg : Q) (mn : Z)
                           (cut : Z -> Z -> Z -> Z) : option (list grow) :=
  match effective_access targets access with
  | None => None
  | Some acc =>
      Some (map (set_gene Gen.BinsDefaults.ANTITARGET_NAME)
                (gsubdivide avg mn cut
                   (gsubtract (gresize (- pad_size) acc) (gresize pad_size targets))))
  end.

(* `if not min_bin_size:` -- None and 0 both select the default *)
Definition effective_min (avg : Q) (mn : option Z) : option Z :=
  match mn with
  | Some m => if m =? 0 then default_min_size avg else Some m
  | None => default_min_size avg
  end.

Inductive anti_result :=
| AntiRows (rows : list grow)
| AntiValueError
| AntiNeedOracle.

Definition do_antitarget (targets : list grow) (access : option (list grow)) (avg : Q) (mn : option Z)
                         (cut : Z -> Z -> Z -> Z) : anti_result :=
  match effective_min avg mn with
  | None => AntiNeedOracle
  | Some m =>
      match get_antitargets targets access avg m cut with
      | Some rows => AntiRows rows
      | None => AntiValueError
      end
  end.
