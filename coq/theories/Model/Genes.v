(* Model of gene-level grouping: skgenome/gary.py (_get_gene_map, by_chromosome),
   cnvlib/cnary.py (by_gene, squash_genes, shift_xx, drop_low_coverage),
   cnvlib/segmetrics.py (segment_mean), cnvlib/reports.py (group_by_genes,
   gene_metrics_by_gene, gene_metrics_by_segment, do_genemetrics,
   get_gene_intervals, get_breakpoints, do_breaks) and the `outer` range query of
   skgenome/intersect.py as used by gene_metrics_by_segment.

   A table is a list of rows in table order; positions are 0-based positions
   within the (per-chromosome) table -- the code as it is now resets the index
   per chromosome and slices positionally, end-exclusive, so index labels do not
   enter.  No proofs here. *)
From Coq Require Import Qabs.
From CNV Require Import Base.Prelude Base.Str Gen.Params Gen.GenesDefaults.

Record bin := mkBin {
  b_chr : string; b_start : Z; b_end : Z; b_gene : string;
  b_log2 : Q; b_weight : Q; b_depth : Q; b_probes : Z }.

(* ---- list slices (DataFrame.iloc[a:b]) --------------------------------- *)

Definition slice {A} (l : list A) (a b : nat) : list A := firstn (b - a) (skipn a l).

(* ---- genestr.split(",") -------------------------------------------------- *)

Definition sep_char : ascii :=
  match GENE_SPLIT_SEP with String c _ => c | EmptyString => ","%char end.

Fixpoint split_at (sep : ascii) (cur : list ascii) (s : list ascii) : list (list ascii) :=
  match s with
  | [] => [rev cur]
  | c :: t => if Ascii.eqb c sep then rev cur :: split_at sep [] t
              else split_at sep (c :: cur) t
  end.

Definition split_genes (s : string) : list string :=
  map unchars (split_at sep_char [] (chars s)).

Definition genes_of (b : bin) : list string := split_genes (b_gene b).

(* ---- _get_gene_map: gene -> (first position, last position), in order of
        first occurrence.  The code keeps the whole list of positions and
        by_gene reads only gene_idx[0] and gene_idx[-1]. ---------------------- *)

Definition gentry := (string * nat * nat)%type.
Definition ge_name (e : gentry) : string := fst (fst e).
Definition ge_first (e : gentry) : nat := snd (fst e).
Definition ge_last (e : gentry) : nat := snd e.

Fixpoint gm_add (g : string) (i : nat) (m : list gentry) : list gentry :=
  match m with
  | [] => [(g, i, i)]
  | (h, f, l) :: t =>
      if String.eqb g h then (h, f, i) :: t else (h, f, l) :: gm_add g i t
  end.

(* the (gene, position) occurrences in the order the double loop visits them *)
Fixpoint occs (i : nat) (rows : list bin) : list (string * nat) :=
  match rows with
  | [] => []
  | b :: t => map (fun g => (g, i)) (genes_of b) ++ occs (S i) t
  end.

Definition gm_fold (o : list (string * nat)) (m : list gentry) : list gentry :=
  fold_left (fun m gi => gm_add (fst gi) (snd gi) m) o m.

Definition gene_map (rows : list bin) : list gentry := gm_fold (occs 0 rows) [].

(* ---- by_chromosome: DataFrame.groupby("chromosome", sort=False) ----------- *)

Fixpoint chrom_add (b : bin) (m : list (string * list bin)) : list (string * list bin) :=
  match m with
  | [] => [(b_chr b, [b])]
  | (c, l) :: t =>
      if String.eqb (b_chr b) c then (c, l ++ [b]) :: t else (c, l) :: chrom_add b t
  end.

Definition by_chromosome (rows : list bin) : list (string * list bin) :=
  fold_left (fun m b => chrom_add b m) rows [].

(* ---- by_gene ---------------------------------------------------------------- *)

Definition group := (string * list bin)%type.

(* the loop over gene_map.items() within one chromosome, then the tail *)
Fixpoint walk (ignore : list string) (rows : list bin) (prev : nat) (m : list gentry)
  : list group :=
  match m with
  | [] => if Nat.ltb prev (length rows) then [(ANTITARGET_NAME, skipn prev rows)] else []
  | (g, f, l) :: t =>
      if mem_string g ignore then walk ignore rows prev t
      else (if Nat.ltb prev f then [(ANTITARGET_NAME, slice rows prev f)] else [])
           ++ (g, slice rows f (S l)) :: walk ignore rows (S l) t
  end.

Definition full_ignore (ignore : list string) : list string := ignore ++ ANTITARGET_ALIASES.

Definition by_gene_chrom (ign : list string) (rows : list bin) : list group :=
  walk ign rows 0 (gene_map rows).

Definition by_gene (ignore : list string) (rows : list bin) : list group :=
  flat_map (fun cr => by_gene_chrom (full_ignore ignore) (snd cr)) (by_chromosome rows).

(* ---- numerics over Q (reduced after each step) ----------------------------- *)

Definition Qltb (a b : Q) : bool := negb (Qle_bool b a).

Fixpoint sumQ (l : list Q) : Q :=
  match l with [] => 0%Q | x :: t => Qred (x + sumQ t) end.

Fixpoint dotQ (xs ws : list Q) : Q :=
  match xs, ws with
  | x :: xt, w :: wt => Qred (x * w + dotQ xt wt)
  | _, _ => 0%Q
  end.

(* np.average(x, weights=w) *)
Definition wavg (xs ws : list Q) : Q := Qred (dotQ xs ws / sumQ ws).
(* Series.mean() *)
Definition meanQ (xs : list Q) : Q := Qred (sumQ xs / inject_Z (Z.of_nat (length xs))).

(* drop_low_coverage *)
Definition min_cvg : Q := Qred (NULL_LOG2_COVERAGE - MIN_REF_COVERAGE).
Definition low_cov (b : bin) : bool :=
  Qltb (b_log2 b) min_cvg || Qeq_bool (b_depth b) DROP_LOW_DEPTH.
Definition drop_low (rows : list bin) : list bin := filter (fun b => negb (low_cov b)) rows.

(* segment_mean; None is NaN *)
Definition segment_mean (skip_low : bool) (rows : list bin) : option Q :=
  let r := if skip_low then drop_low rows else rows in
  match r with
  | [] => None
  | _ :: _ =>
      if existsb (fun b => negb (Qeq_bool (b_weight b) 0)) r
      then Some (wavg (map b_log2 r) (map b_weight r))
      else Some (meanQ (map b_log2 r))
  end.

(* ---- group_by_genes ----------------------------------------------------------- *)

Record grow := mkGrow {
  r_gene : string; r_chr : string; r_start : Z; r_end : Z; r_log2 : option Q;
  r_depth : Q; r_weight : Q; r_probes : Z; r_segw : option Q; r_segp : option Z }.

Definition group_row (skip_low : bool) (g : string) (rows : list bin) : option grow :=
  match rows with
  | [] => None
  | b0 :: _ =>
      Some {| r_gene := g; r_chr := b_chr b0; r_start := b_start b0;
              r_end := b_end (last rows b0);
              r_log2 := segment_mean skip_low rows;
              r_depth := wavg (map b_depth rows) (map b_weight rows);
              r_weight := sumQ (map b_weight rows);
              r_probes := Z.of_nat (length rows);
              r_segw := None; r_segp := None |}
  end.

Definition group_ignore : list string := GROUP_IGNORE_LITERALS ++ ANTITARGET_ALIASES.

Definition group_rows_of (skip_low : bool) (gr : group) : list grow :=
  if mem_string (fst gr) group_ignore then []
  else match group_row skip_low (fst gr) (snd gr) with Some r => [r] | None => [] end.

Definition group_by_genes (skip_low : bool) (rows : list bin) : list grow :=
  flat_map (group_rows_of skip_low) (by_gene IGNORE_GENE_NAMES rows).

(* ---- shift_xx ------------------------------------------------------------------- *)

Definition x_label (rows : list bin) : string :=
  match rows with
  | [] => ""
  | b :: _ => if str_prefix "chr" (b_chr b) then "chrX" else "X"
  end.

Definition xx_shift (haploid_x_ref is_xx : bool) : Q :=
  if is_xx && haploid_x_ref then SHIFT_XX_FEMALE_HAPLOID
  else if negb is_xx && negb haploid_x_ref then SHIFT_XX_MALE_DIPLOID
  else 0%Q.

Definition set_log2 (b : bin) (v : Q) : bin :=
  mkBin (b_chr b) (b_start b) (b_end b) (b_gene b) v (b_weight b) (b_depth b) (b_probes b).

(* (in the two other cases -- xx_shift = 0 -- the code leaves the table as it is) *)
Definition shift_xx (haploid_x_ref is_xx : bool) (rows : list bin) : list bin :=
  let x := x_label rows in
  let d := xx_shift haploid_x_ref is_xx in
  if Qeq_bool d 0 then rows
  else map (fun b => if String.eqb (b_chr b) x then set_log2 b (Qred (b_log2 b + d)) else b) rows.

(* ---- genemetrics ---------------------------------------------------------------- *)

Definition reaches (threshold : Q) (v : option Q) : bool :=
  match v with Some x => Qle_bool threshold (Qabs x) | None => false end.

Definition gene_metrics_by_gene (threshold : Q) (skip_low : bool) (rows : list bin) : list grow :=
  filter (fun r => reaches threshold (r_log2 r) && negb (String.eqb (r_gene r) ""))
         (group_by_genes skip_low rows).

(* cnarr.by_ranges(segments), mode "outer", keep_empty: for every segment (grouped by
   chromosome in order of first appearance) the bins of the same chromosome that
   overlap it: positions [#(end <= seg.start), #(start < seg.end)) of that
   chromosome's bins (searchsorted on the sorted end / start columns) *)
Definition countb {A} (p : A -> bool) (l : list A) : nat := length (filter p l).

Definition seg_bins (crows : list bin) (s : bin) : list bin :=
  slice crows (countb (fun b => b_end b <=? b_start s) crows)
              (countb (fun b => b_start b <? b_end s) crows).

Fixpoint assoc_chrom (c : string) (m : list (string * list bin)) : option (list bin) :=
  match m with
  | [] => None
  | (c', l) :: t => if String.eqb c c' then Some l else assoc_chrom c t
  end.

Definition by_ranges (rows segs : list bin) : list (bin * list bin) :=
  let cm := by_chromosome rows in
  flat_map (fun cs =>
              match assoc_chrom (fst cs) cm with
              | Some crows => map (fun s => (s, seg_bins crows s)) (snd cs)
              | None => map (fun s => (s, [])) (snd cs)
              end)
           (by_chromosome segs).

Definition with_segment (s : bin) (r : grow) : grow :=
  mkGrow (r_gene r) (r_chr r) (r_start r) (r_end r) (Some (b_log2 s))
         (r_depth r) (r_weight r) (r_probes r) (Some (b_weight s)) (Some (b_probes s)).

Definition gene_metrics_by_segment (threshold : Q) (skip_low : bool) (rows segs : list bin)
  : list grow :=
  flat_map (fun ss =>
              if Qle_bool threshold (Qabs (b_log2 (fst ss)))
              then map (with_segment (fst ss)) (group_by_genes skip_low (snd ss))
              else [])
           (by_ranges rows segs).

Definition n_probes (r : grow) : Z :=
  match r_segp r with Some p => p | None => r_probes r end.

Definition do_genemetrics (rows : list bin) (segs : option (list bin)) (threshold : Q)
  (min_probes : Z) (skip_low haploid_x_ref is_female : bool) : list grow :=
  let rows' := shift_xx haploid_x_ref is_female rows in
  let table :=
    match segs with
    | Some ((_ :: _) as sg) =>
        gene_metrics_by_segment threshold skip_low rows' (shift_xx haploid_x_ref is_female sg)
    | _ => gene_metrics_by_gene threshold skip_low rows'
    end in
  if min_probes =? 0 then table else filter (fun r => min_probes <=? n_probes r) table.

(* ---- squash_genes (coordinates, name and probes; the summary function of the
        value columns is outside the property) --------------------------------------- *)

Record srow := mkSrow { s_chr : string; s_start : Z; s_end : Z; s_gene : string; s_probes : Z }.

Definition srow_of_bin (b : bin) : srow :=
  mkSrow (b_chr b) (b_start b) (b_end b) (b_gene b) (b_probes b).

Definition squash_group (squash_antitarget : bool) (gr : group) : list srow :=
  match snd gr with
  | [] => []
  | b0 :: rest =>
      if mem_string (fst gr) ANTITARGET_ALIASES && negb squash_antitarget
      then map srow_of_bin (snd gr)
      else match rest with
           | [] => [srow_of_bin b0]
           | _ :: _ => [mkSrow (b_chr b0) (b_start b0) (b_end (last (snd gr) b0)) (fst gr)
                               (sumZ (map b_probes (snd gr)))]
           end
  end.

Definition squash_genes (ignore : list string) (squash_antitarget : bool) (rows : list bin)
  : list srow :=
  flat_map (squash_group squash_antitarget) (by_gene ignore rows).

(* ---- breaks ------------------------------------------------------------------------ *)

(* sorted(starts) *)
Fixpoint insZ (x : Z) (l : list Z) : list Z :=
  match l with
  | [] => [x]
  | y :: t => if x <=? y then x :: l else y :: insZ x t
  end.
Definition sortZ (l : list Z) : list Z := fold_right insZ [] l.

Definition maxZ (l : list Z) : Z :=
  match l with [] => 0 | x :: t => fold_left Z.max t x end.

(* Python list comparison a <= b (lexicographic) *)
Fixpoint lex_le (a b : list Z) : bool :=
  match a, b with
  | [], _ => true
  | _ :: _, [] => false
  | x :: a', y :: b' => if x <? y then true else if y <? x then false else lex_le a' b'
  end.

Definition interval := (string * list Z * Z)%type.   (* gene, sorted starts, end *)

(* gene_probes[chrom][str(row.gene)].append(row): whole gene string, not split *)
Fixpoint iv_add (b : bin) (m : list (string * list bin)) : list (string * list bin) :=
  match m with
  | [] => [(b_gene b, [b])]
  | (g, l) :: t =>
      if String.eqb (b_gene b) g then (g, l ++ [b]) :: t else (g, l) :: iv_add b t
  end.

(* list.sort(key=starts): stable, ascending *)
Fixpoint ins_iv (x : interval) (l : list interval) : list interval :=
  match l with
  | [] => [x]
  | y :: t => if lex_le (snd (fst x)) (snd (fst y)) then x :: l else y :: ins_iv x t
  end.
Definition sort_iv (l : list interval) : list interval := fold_right ins_iv [] l.

Definition gene_intervals_chrom (ign : list string) (crows : list bin) : list interval :=
  let named := filter (fun b => negb (mem_string (b_gene b) ign)) crows in
  let grouped := fold_left (fun m b => iv_add b m) named [] in
  sort_iv (map (fun gl => (fst gl, sortZ (map b_start (snd gl)),
                           maxZ (map b_end (snd gl)))) grouped).

Definition gene_intervals (ignore : list string) (rows : list bin) (c : string) : list interval :=
  gene_intervals_chrom (full_ignore ignore) (filter (fun b => String.eqb (b_chr b) c) rows).

Record brow := mkBrow {
  k_gene : string; k_chr : string; k_loc : Z; k_change : Q; k_left : Z; k_right : Z }.

Definition break_at (min_probes : Z) (cur next : bin) (iv : interval) : list brow :=
  let '(g, starts, gend) := iv in
  let e := b_end cur in
  if (hd 0 starts <? e) && (e <? gend) then
    let pl := Z.of_nat (countb (fun s => s <? e) starts) in
    let pr := Z.of_nat (countb (fun s => e <=? s) starts) in
    if (min_probes <=? pl) && (min_probes <=? pr)
    then [mkBrow g (b_chr cur) e (Qred (b_log2 next - b_log2 cur)) pl pr]
    else []
  else [].

Fixpoint breakpoints_raw (ivs : string -> list interval) (min_probes : Z) (segs : list bin)
  : list brow :=
  match segs with
  | cur :: ((next :: _) as t) =>
      (if String.eqb (b_chr next) (b_chr cur)
       then flat_map (break_at min_probes cur next) (ivs (b_chr cur))
       else [])
      ++ breakpoints_raw ivs min_probes t
  | _ => []
  end.

(* sort(key=(min(left,right), |change|), reverse=True): stable, descending *)
Definition bkey_ge (x y : brow) : bool :=
  let mx := Z.min (k_left x) (k_right x) in
  let my := Z.min (k_left y) (k_right y) in
  if my <? mx then true else if mx <? my then false
  else Qle_bool (Qabs (k_change y)) (Qabs (k_change x)).

Fixpoint ins_b (x : brow) (l : list brow) : list brow :=
  match l with
  | [] => [x]
  | y :: t => if bkey_ge x y then x :: l else y :: ins_b x t
  end.
Definition sort_b (l : list brow) : list brow := fold_right ins_b [] l.

Definition do_breaks (rows segs : list bin) (min_probes : Z) : list brow :=
  sort_b (breakpoints_raw (gene_intervals IGNORE_GENE_NAMES rows) min_probes segs).

(* ---- keys in order of first occurrence (DataFrame.groupby(sort=False), OrderedDict) ---------- *)
Fixpoint dedup (l : list string) : list string :=
  match l with
  | [] => []
  | x :: t => x :: filter (fun y => negb (String.eqb y x)) (dedup t)
  end.
