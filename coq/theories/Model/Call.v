(* Model of cnvlib/call.py, clonal method (C01):
     do_call -> absolute_clonal -> get_as_dframe_and_set_reference_and_expect_copies
             -> _log2_ratio_to_absolute, .clip(lower=0), log2_ratios      (purity-adjusted path)
     do_call -> absolute_pure -> _reference_copies_pure                   (no purity / purity >= 1)
   and of the row masks of cnvlib/cnary.py (chr_x_label, chr_y_label, chr_x_filter,
   parx_filter, chr_y_filter, pary_filter).

   The model lives in ratio space: every row carries e = 2^log2 (an oracle value,
   supplied by the harness as the exact rational of the float Python computes), so
   everything below is rational arithmetic.  The rewritten log2 is returned as the
   ratio 2^new_log2.  All constants come from Gen.Params / Gen.CallDefaults.  No proofs here. *)
From Coq Require Import Qround.
From CNV Require Import Base.Prelude Base.Str Gen.Params Gen.CallDefaults.

Local Open Scope Z_scope.

(* ---------------------------------------------------------------- numbers *)

(* np.maximum(a, b) / Series.clip(lower=b) on reals *)
Definition qmax (a b : Q) : Q := if Qle_bool a b then b else a.

(* numpy round(): round half to even *)
Definition round_he (q : Q) : Z :=
  let f := Qfloor q in
  match (q - inject_Z f ?= 1 # 2)%Q with
  | Lt => f
  | Gt => f + 1
  | Eq => if Z.even f then f else f + 1
  end.

(* ---------------------------------------------------------------- labels and masks *)

Definition lower_str (s : string) : string := unchars (lower (chars s)).

(* CopyNumArray.chr_x_label / chr_y_label: derived from the first row's chromosome *)
Definition x_label (first : string) : string :=
  if str_prefix chr_prefix first then x_label_chr else x_label_plain.
Definition y_label (first : string) : string :=
  if str_prefix chr_prefix (x_label first) then y_label_chr else y_label_plain.

Fixpoint par_lookup (tbl : list (string * string * Z * Z)) (build key : string) : option (Z * Z) :=
  match tbl with
  | [] => None
  | (b, k, lo, hi) :: t =>
      if String.eqb b build && String.eqb k key then Some (lo, hi) else par_lookup t build key
  end.

(* `assert genome_build in params.SUPPORTED_GENOMES_FOR_PAR_HANDLING` (after .lower()) *)
Definition build_supported (build : string) : bool :=
  existsb (fun '(b, _, _, _) => String.eqb b (lower_str build)) PAR_TABLE.

(* ((start >= par1_start) & (end <= par1_end)) | ((start >= par2_start) & (end <= par2_end)) *)
Definition in_par (build : string) (keys : list string) (lo hi : Z) : bool :=
  existsb (fun key =>
             match par_lookup PAR_TABLE (lower_str build) key with
             | Some (a, b) => (a <=? lo) && (hi <=? b)
             | None => false
             end) keys.

Inductive cls := Auto | ChrX | ChrY | ParX | ParY.

(* which of the masks chr_x_filter / parx_filter / chr_y_filter / pary_filter select the row *)
Definition row_class (build : option string) (first chrom : string) (lo hi : Z) : cls :=
  if String.eqb chrom (x_label first) then
    match build with
    | Some b => if in_par b par_keys_x lo hi then ParX else ChrX
    | None => ChrX
    end
  else if String.eqb chrom (y_label first) then
    match build with
    | Some b => if in_par b par_keys_y lo hi then ParY else ChrY
    | None => ChrY
    end
  else Auto.

(* ---------------------------------------------------------------- copies *)

(* ploidy // 2 *)
Definition half (k : Z) : Z := k / half_div.

(* get_as_dframe_and_set_reference_and_expect_copies: (reference, expect) *)
Definition ref_expect (k : Z) (hapx female : bool) (c : cls) : Z * Z :=
  match c with
  | Auto | ParX => (k, k)
  | ChrX => (if hapx then half k else k, if female then k else half k)
  | ChrY => (half k, if female then y_female_expect else half k)
  | ParY => (pary_copies, pary_copies)
  end.

(* _reference_copies_pure: lower-cased membership test, no PAR, no sample sex *)
Definition ref_pure (chrom : string) (k : Z) (hapx : bool) : Z :=
  let c := lower_str chrom in
  if mem_string c pure_y_names || (hapx && mem_string c pure_x_names) then half k else k.

(* ---------------------------------------------------------------- conversions *)

(* _log2_ratio_to_absolute with purity:  (r * 2^v - x * (1 - p)) / p *)
Definition abs_clonal (e : Q) (r x : Z) (p : Q) : Q :=
  Qred ((inject_Z r * e - inject_Z x * (1 - p)) / p).

(* _log2_ratio_to_absolute_pure:  r * 2^v *)
Definition abs_pure (e : Q) (r : Z) : Q := Qred (inject_Z r * e).

(* the two `+= 1.0` of log2_ratios, in ratio space *)
Definition shift_factor : Q := inject_Z (2 ^ sex_shift_log2).

(* rows of chr_x_filter (if haploid-X reference) and chr_y_filter get the shift *)
Definition shifted (hapx : bool) (c : cls) : bool :=
  match c with ChrX => hapx | ChrY => true | _ => false end.

(* log2_ratios in ratio space: max(a / ploidy, min_abs_val) [* 2] *)
Definition rescaled (a : Q) (k : Z) (shift : bool) : Q :=
  let m := qmax (a / inject_Z k) min_abs_val in
  Qred (if shift then m * shift_factor else m).

(* `if purity and purity < 1.0` *)
Definition use_purity (purity : option Q) : option Q :=
  match purity with
  | Some p => if negb (Qeq_bool p 0) && negb (Qle_bool purity_limit p) then Some p else None
  | None => None
  end.

(* ---------------------------------------------------------------- rows *)

(* one row: (cn, absolute before rounding, rewritten ratio 2^log2 if rewritten) *)
Definition out_row := (Z * Q * option Q)%type.

Definition call_row_purity (k : Z) (p : Q) (hapx female : bool) (c : cls) (e : Q) : out_row :=
  let '(r, x) := ref_expect k hapx female c in
  let a := qmax (abs_clonal e r x p) clip_lower in
  (round_he a, a, Some (rescaled a k (shifted hapx c))).

Definition call_row_pure (k : Z) (hapx : bool) (chrom : string) (e : Q) : out_row :=
  let a := abs_pure e (ref_pure chrom k hapx) in
  (round_he a, a, None).

Definition in_row := (string * Z * Z * Q)%type.   (* chromosome, start, end, 2^log2 *)

Definition first_chrom (rows : list in_row) : string :=
  match rows with (c, _, _, _) :: _ => c | [] => EmptyString end.

(* the (reference, expect) pair the active path uses for a row *)
Definition row_copies (k : Z) (purity : option Q) (hapx female : bool) (build : option string)
  (first : string) (row : in_row) : Z * Z :=
  let '(chrom, lo, hi, _) := row in
  match use_purity purity with
  | Some _ => ref_expect k hapx female (row_class build first chrom lo hi)
  | None => (ref_pure chrom k hapx, ref_pure chrom k hapx)
  end.

Definition call_row (k : Z) (purity : option Q) (hapx female : bool) (build : option string)
  (first : string) (row : in_row) : out_row :=
  let '(chrom, lo, hi, e) := row in
  match use_purity purity with
  | Some p => call_row_purity k p hapx female (row_class build first chrom lo hi) e
  | None => call_row_pure k hapx chrom e
  end.

(* do_call(method="clonal"): None = AssertionError (unsupported genome build on the
   purity-adjusted path; the pure path never looks at the build) *)
Definition call_clonal (k : Z) (purity : option Q) (hapx female : bool) (build : option string)
  (rows : list in_row) : option (list out_row) :=
  let ok := match use_purity purity, build with
            | Some _, Some b => build_supported b
            | _, _ => true
            end in
  if ok then Some (map (call_row k purity hapx female build (first_chrom rows)) rows) else None.
