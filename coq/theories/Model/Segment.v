(* Model of cnvlib.segmentation.do_segmentation at the granularity property C03
   observes: the bins of a chromosome go in, the segment rows come out.

   _do_segmentation: three bin filters (drop_low_coverage, the outlier mask --
   an ORACLE list of booleans --, the weight rule), the segmentation method
   proper reduced to an ORACLE list of breakpoints into the survivor list
   (none: no breakpoint; haar / hmm: wherever the method put them), and
   transfer_fields: stretch the first / last segment of the piece handed to it
   to the piece's first / last input bin, then recompute gene / weight / depth
   over all input bins overlapping each (stretched) segment.

   none, haar (and cbs) are run per chromosome arm (Model/Arms.v); the hmm
   methods are run once on the whole table, so only the table's very first and
   very last segment are stretched (and only if they are on the table's first /
   last chromosome). *)
From CNV Require Import Base.Prelude Base.Str Gen.Params Gen.SegDefaults Model.Arms.
From CNV Require Model.Ranges Model.Haar Model.Chromsort.

Record bin := mkBin {
  b_lo : Z; b_hi : Z; b_gene : string; b_log2 : Q;
  b_weight : option Q;          (* None = NaN *)
  b_depth : Q }.

Notation fbin := (bin * bool)%type (only parsing).   (* a bin and whether it survives the filters *)

(* ---- filters ------------------------------------------------------------ *)

Definition Qltb (a b : Q) : bool := match (a ?= b)%Q with Lt => true | _ => false end.

(* CopyNumArray.drop_low_coverage *)
Definition low_coverage (b : bin) : bool :=
  Qltb (b_log2 b) (NULL_LOG2_COVERAGE - MIN_REF_COVERAGE)%Q || Qeq_bool (b_depth b) 0%Q.

(* `if min_weight: weight < min_weight else: weight == 0`, NaN counts as too low *)
Definition weight_too_low (min_weight : Q) (b : bin) : bool :=
  match b_weight b with
  | None => true
  | Some w => if Qeq_bool min_weight 0%Q then Qeq_bool w 0%Q else Qltb w min_weight
  end.

Definition survives (skip_low : bool) (min_weight : Q) (outlier : bool) (b : bin) : bool :=
  negb (skip_low && low_coverage b) && negb outlier && negb (weight_too_low min_weight b).

(* the mask is positional; a short mask is padded with false *)
Fixpoint flag_bins (skip_low : bool) (min_weight : Q) (bins : list bin) (mask : list bool) : list fbin :=
  match bins with
  | [] => []
  | b :: t => (b, survives skip_low min_weight (hd false mask) b) :: flag_bins skip_low min_weight t (tl mask)
  end.

Definition survivors (fl : list fbin) : list bin := map fst (filter snd fl).

(* ---- breakpoints -> groups of survivors ---------------------------------- *)

Definition group := (bin * list bin)%type.       (* non-empty by construction *)
Definition group_bins (g : group) : list bin := fst g :: snd g.

(* cut l (whose first element has survivor index pos) at the breakpoints bps *)
Fixpoint groups_from (pos : Z) (bps : list Z) (l : list bin) : list group :=
  match bps with
  | [] => match l with [] => [] | x :: r => [(x, r)] end
  | b :: t =>
      let n := Z.to_nat (b - pos) in
      match firstn n l with
      | [] => groups_from b t (skipn n l)
      | x :: r => (x, r) :: groups_from b t (skipn n l)
      end
  end.

Definition groups_of_breaks (bps : list Z) (l : list bin) : list group := groups_from 0 bps l.

(* segment coordinates before aggregation, with the survivors they summarise *)
Record rseg := mkR { r_lo : Z; r_hi : Z; r_group : group }.

Definition seg_of_group (g : group) : rseg :=
  mkR (b_lo (fst g)) (b_hi (last (snd g) (fst g))) g.

(* ---- transfer_fields: stretch -------------------------------------------- *)

Definition set_lo (v : Z) (s : rseg) : rseg := mkR v (r_hi s) (r_group s).
Definition set_hi (v : Z) (s : rseg) : rseg := mkR (r_lo s) v (r_group s).

Definition stretch_lo (v : Z) (l : list rseg) : list rseg :=
  match l with [] => [] | s :: t => set_lo v s :: t end.

Fixpoint stretch_hi (v : Z) (l : list rseg) : list rseg :=
  match l with
  | [] => []
  | [s] => [set_hi v s]
  | s :: t => s :: stretch_hi v t
  end.

(* ---- transfer_fields: aggregation over the overlapping input bins --------- *)

Definition overlaps (slo shi : Z) (b : bin) : bool := (b_lo b <? shi) && (slo <? b_hi b).
Definition spanned (bins : list bin) (slo shi : Z) : list bin := filter (overlaps slo shi) bins.

Definition wt0 (b : bin) : Q := match b_weight b with Some w => w | None => 0%Q end.

Fixpoint sum_weights (l : list bin) : option Q :=      (* None = NaN *)
  match l with
  | [] => Some 0%Q
  | b :: t =>
      match b_weight b, sum_weights t with
      | Some w, Some s => Some (Qred (w + s)%Q)
      | _, _ => None
      end
  end.

Definition qsum (l : list Q) : Q := fold_right (fun x a => Qred (x + a)%Q) 0%Q l.

Fixpoint qdot (xs ws : list Q) : Q :=
  match xs, ws with
  | x :: xt, w :: wt => Qred (x * w + qdot xt wt)%Q
  | _, _ => 0%Q
  end.

(* np.average(depths, weights) when the summed weight is > 0, else 0.0 (also for NaN) *)
Definition agg_depth (l : list bin) : Q :=
  match sum_weights l with
  | Some s => if Qltb 0%Q s then Qred (qdot (map b_depth l) (map wt0 l) / s)%Q else 0%Q
  | None => 0%Q
  end.

(* pd.unique: first occurrences, in order *)
Fixpoint uniq (seen : list string) (l : list string) : list string :=
  match l with
  | [] => []
  | x :: t => if mem_string x seen then uniq seen t else x :: uniq (x :: seen) t
  end.

Definition ignored_names : list string := IGNORE_GENE_NAMES ++ ANTITARGET_ALIASES.

Definition gene_field (names : list string) : string :=
  match filter (fun g => negb (mem_string g ignored_names)) (uniq [] names) with
  | [] => "-"%string
  | l => String.concat "," l
  end.

(* ---- log2 of a segment ---------------------------------------------------- *)

Definition plain_mean (xs : list Q) : Q := Qred (qsum xs / inject_Z (Z.of_nat (length xs)))%Q.
Definition wavg (xs ws : list Q) : Q := Qred (qdot xs ws / qsum ws)%Q.

(* segmetrics.segment_mean (method none): weighted if any weight is non-zero *)
Definition mean_none (g : list bin) : Q :=
  if existsb (fun w => negb (Qeq_bool w 0%Q)) (map wt0 g)
  then wavg (map b_log2 g) (map wt0 g) else plain_mean (map b_log2 g).

(* segfilters.squash_region (hmm methods): weighted if the summed weight is > 0 *)
Definition mean_squash (g : list bin) : Q :=
  if Qltb 0%Q (qsum (map wt0 g))
  then wavg (map b_log2 g) (map wt0 g) else plain_mean (map b_log2 g).

Inductive method := MNone | MHaar | MHmm.

Record seg := mkSeg {
  s_lo : Z; s_hi : Z; s_probes : Z;
  s_log2 : option Q;            (* None: not modelled (haar's own estimate) *)
  s_gene : string;
  s_weight : option Q;          (* None = NaN *)
  s_depth : Q }.

Definition seg_log2 (m : method) (g : list bin) : option Q :=
  match m with
  | MNone => Some (mean_none g)
  | MHmm => Some (mean_squash g)
  | MHaar => None
  end.

Definition finish (m : method) (bins : list bin) (r : rseg) : seg :=
  let sp := spanned bins (r_lo r) (r_hi r) in
  mkSeg (r_lo r) (r_hi r) (Z.of_nat (length (group_bins (r_group r))))
        (seg_log2 m (group_bins (r_group r)))
        (gene_field (map b_gene sp)) (sum_weights sp) (agg_depth sp).

(* ---- per-arm methods (none, haar, cbs) ------------------------------------ *)

(* _do_segmentation on one arm: no survivor -> no segment; else cut the
   survivors at the breakpoints and stretch to the arm's first / last input bin *)
Definition arm_rsegs (fl : list fbin) (bps : list Z) : list rseg :=
  match fl with
  | [] => []
  | f :: _ =>
      stretch_hi (b_hi (fst (last fl f)))
        (stretch_lo (b_lo (fst f)) (map seg_of_group (groups_of_breaks bps (survivors fl))))
  end.

Definition arm_segs (m : method) (fl : list fbin) (bps : list Z) : list seg :=
  map (finish m (map fst fl)) (arm_rsegs fl bps).

(* breakpoints are given as indices into the chromosome's survivor list; an arm
   holding survivors off .. off+k-1 sees those strictly inside, shifted *)
Definition local_bps (off k : Z) (bps : list Z) : list Z :=
  map (fun b => b - off) (filter (fun b => (off <? b) && (b <? off + k)) bps).

Definition method_bps (m : method) (off k : Z) (bps : list Z) : list Z :=
  match m with MNone => [] | _ => local_bps off k bps end.

Fixpoint arms_rsegs (m : method) (arms : list (list fbin)) (off : Z) (bps : list Z)
  : list (list bin * list rseg) :=
  match arms with
  | [] => []
  | a :: t =>
      let k := Z.of_nat (length (survivors a)) in
      (map fst a, arm_rsegs a (method_bps m off k bps)) :: arms_rsegs m t (off + k) bps
  end.

Definition fb_lo (f : fbin) : Z := b_lo (fst f).
Definition fb_hi (f : fbin) : Z := b_hi (fst f).

Definition chrom_arms (fl : list fbin) : list (list fbin) := arm_split fb_lo fb_hi fl.

Definition chrom_segs (m : method) (fl : list fbin) (bps : list Z) : list seg :=
  flat_map (fun p => map (finish m (fst p)) (snd p)) (arms_rsegs m (chrom_arms fl) 0 bps).

(* ---- whole-table methods (hmm, hmm-tumor, hmm-germline) -------------------- *)

Record chrom_in := mkChrom { c_name : string; c_fl : list fbin; c_bps : list Z }.

Definition chrom_raw (c : chrom_in) : list rseg :=
  map seg_of_group (groups_of_breaks (c_bps c) (survivors (c_fl c))).

Definition is_nil {A} (l : list A) : bool := match l with [] => true | _ => false end.

(* transfer_fields on the whole table: the first row is stretched iff it is on the
   table's first chromosome, the last row iff it is on the table's last chromosome
   (chromosome names are distinct, every chromosome has a bin), each to that
   chromosome's own first / last input bin *)
Definition chrom_hmm_rsegs (is_first is_last : bool) (c : chrom_in) : list rseg :=
  let raw := chrom_raw c in
  match c_fl c with
  | [] => raw
  | f :: _ =>
      let r1 := if is_first then stretch_lo (b_lo (fst f)) raw else raw in
      if is_last then stretch_hi (b_hi (fst (last (c_fl c) f))) r1 else r1
  end.

Definition chrom_hmm_segs (is_first is_last : bool) (c : chrom_in) : list seg :=
  map (finish MHmm (map fst (c_fl c))) (chrom_hmm_rsegs is_first is_last c).

Fixpoint hmm_rows (is_first : bool) (tbl : list chrom_in) : list (string * list seg) :=
  match tbl with
  | [] => []
  | c :: t => (c_name c, chrom_hmm_segs is_first (is_nil t) c) :: hmm_rows false t
  end.

Definition hmm_table (tbl : list chrom_in) : list (string * list seg) := hmm_rows true tbl.

(* ======================================================================== *)
(* The same pipeline along the code's own path: what the entry points run.   *)
(* ======================================================================== *)

(* ---- rows as the segmentation methods hand them to transfer_fields --------- *)

(* start, end, probes, log2 (None: not modelled) of one row of `segarr` *)
Record raw := mkRaw { w_lo : Z; w_hi : Z; w_probes : Z; w_log2 : option Q }.

Definition raw_of (m : method) (r : rseg) : raw :=
  mkRaw (r_lo r) (r_hi r) (Z.of_nat (length (group_bins (r_group r)))) (seg_log2 m (group_bins (r_group r))).

Definition raw_set_lo (v : Z) (w : raw) : raw := mkRaw v (w_hi w) (w_probes w) (w_log2 w).
Definition raw_set_hi (v : Z) (w : raw) : raw := mkRaw (w_lo w) v (w_probes w) (w_log2 w).

(* segments.data.iloc[0, start] = bins_start ; segments.data.iloc[-1, end] = bins_end *)
Definition raw_stretch_lo (v : Z) (l : list raw) : list raw :=
  match l with [] => [] | w :: t => raw_set_lo v w :: t end.

Fixpoint raw_stretch_hi (v : Z) (l : list raw) : list raw :=
  match l with
  | [] => []
  | [w] => [raw_set_hi v w]
  | w :: t => w :: raw_stretch_hi v t
  end.

(* ---- transfer_fields, the aggregation step as the code runs it ------------- *)

(* cdata = cnarr.data.reset_index(): the row labels are the positions 0 .. n-1, and
   bin_weights[bin_idx] / bin_depths[bin_idx] / bin_genes[bin_idx] index by them.
   iter_slices(cdata, segments.data, "outer", False) is the C07 model
   (Model/Ranges.v: by_shared_chroms, idx_ranges, searchsorted); mode and keep_empty
   are read from the source (Gen/SegDefaults.v). *)
Fixpoint bin_rows_from (c : string) (i : Z) (bins : list bin) : list Ranges.trow :=
  match bins with
  | [] => []
  | b :: t => (c, Ranges.mkRow i (b_lo b) (b_hi b)) :: bin_rows_from c (i + 1) t
  end.

Definition seg_rows (c : string) (qs : list (Z * Z)) : list Ranges.trow :=
  map (fun q => (c, Ranges.mkRow 0 (fst q) (snd q))) qs.

Definition dummy_bin : bin := mkBin 0 0 ""%string 0%Q None 0%Q.

Definition take_bins (bins : list bin) (sel : list Ranges.row) : list bin :=
  map (fun r => nth (Z.to_nat (Ranges.r_id r)) bins dummy_bin) sel.

Definition slices (c : string) (bins : list bin) (qs : list (Z * Z)) : list (list bin) :=
  map (take_bins bins)
      (Ranges.iter_slices (bin_rows_from c 0 bins) (seg_rows c qs)
                          (Ranges.imode_of_name transfer_slices_mode) transfer_slices_keep_empty).

Definition fill (w : raw) (gene : string) (wt : option Q) (d : Q) : seg :=
  mkSeg (w_lo w) (w_hi w) (w_probes w) (w_log2 w) gene wt d.

(* seg_genes = ["-"] * n; seg_weights = seg_depths = zeros(n);
   for i, bin_idx in enumerate(iter_slices(...)): row i gets the i-th selection *)
Fixpoint fill_rows (ws : list raw) (sl : list (list bin)) : list seg :=
  match ws with
  | [] => []
  | w :: wt =>
      match sl with
      | sp :: st => fill w (gene_field (map b_gene sp)) (sum_weights sp) (agg_depth sp) :: fill_rows wt st
      | [] => fill w "-"%string (Some 0%Q) 0%Q :: fill_rows wt []
      end
  end.

Definition raw_range (w : raw) : Z * Z := (w_lo w, w_hi w).

Definition aggregate (c : string) (bins : list bin) (ws : list raw) : list seg :=
  fill_rows ws (slices c bins (map raw_range ws)).

(* transfer_fields(segments, cnarr) for a piece on one chromosome with at least one row *)
Definition transfer (c : string) (bins : list bin) (ws : list raw) : list seg :=
  match bins with
  | [] => []
  | b :: t => aggregate c bins (raw_stretch_hi (b_hi (last t b)) (raw_stretch_lo (b_lo b) ws))
  end.

Definition rq (r : rseg) : Z * Z := (r_lo r, r_hi r).

Definition finish_rows (m : method) (rs : list rseg) (sl : list (list bin)) : list seg :=
  fill_rows (map (raw_of m) rs) sl.

Definition piece_name : string := "c"%string.     (* one piece = one chromosome; the name is irrelevant *)

Definition arm_segs_code (m : method) (fl : list fbin) (bps : list Z) : list seg :=
  let rs := arm_rsegs fl bps in finish_rows m rs (slices piece_name (map fst fl) (map rq rs)).

Definition chrom_segs_code (m : method) (fl : list fbin) (bps : list Z) : list seg :=
  flat_map (fun p => finish_rows m (snd p) (slices piece_name (fst p) (map rq (snd p))))
           (arms_rsegs m (chrom_arms fl) 0 bps).

Definition chrom_hmm_segs_code (is_first is_last : bool) (c : chrom_in) : list seg :=
  let rs := chrom_hmm_rsegs is_first is_last c in
  finish_rows MHmm rs (slices (c_name c) (map fst (c_fl c)) (map rq rs)).

Fixpoint hmm_rows_code (is_first : bool) (tbl : list chrom_in) : list (string * list seg) :=
  match tbl with
  | [] => []
  | c :: t => (c_name c, chrom_hmm_segs_code is_first (is_nil t) c) :: hmm_rows_code false t
  end.

Definition hmm_table_code (tbl : list chrom_in) : list (string * list seg) := hmm_rows_code true tbl.

(* ---- haar: segment_haar / one_chrom on the survivors of one arm ---------------- *)


(* what the harness supplies per haarSeg call: the smoothed signal cnarr.smooth_log2()
   of the piece (Savitzky-Golay: outside the model), and per level the p-values of
   FDRThres and the absorption flag (the oracles of Model/Haar.v) *)
Record haar_oracle := mkHO { ho_signal : list Q; ho_pvals : list (list Q); ho_absorb : list bool }.

Definition empty_oracle : haar_oracle := mkHO [] [] [].

Definition by_level {A} (d : A) (l : list A) (level : Z) : A :=
  nth (Z.to_nat (level - hd 0 Model.Haar.haar_levels)) l d.

Section HaarPath.
Variables (scale_u scale_w : Z -> Q).     (* h |-> math.sqrt(2.0 * h), math.sqrt(h / 2) *)
Variable q : Q.                            (* the FDR threshold *)

(* haarSeg(cnarr.smooth_log2(), fdr_q, W = cnarr["weight"].values) *)
Definition haar_one (surv : list bin) (o : haar_oracle) : Model.Haar.haar_result :=
  Model.Haar.haar_seg scale_u scale_w (by_level [] (ho_pvals o)) (by_level false (ho_absorb o))
              (ho_signal o) (Some (map wt0 surv)) q.

Definition bin_at (surv : list bin) (i : Z) : bin := nth (Z.to_nat i) surv dummy_bin.

(* one_chrom's table: start = starts.take(results["start"]), end = ends.take(results["end"]),
   log2 = results["mean"], probes = results["size"] *)
Definition haar_table (surv : list bin) (r : Model.Haar.haar_result) : list raw :=
  map (fun x => let '(st, ed, sz, mn) := x in
                mkRaw (b_lo (bin_at surv st)) (b_hi (bin_at surv ed)) sz (Some mn))
      (combine (combine (combine (Model.Haar.hr_start r) (Model.Haar.hr_end r)) (Model.Haar.hr_size r)) (Model.Haar.hr_mean r)).

(* segment_haar: haar's own by_arm() on what it is given (the survivors of the arm),
   one haarSeg call per piece, tables concatenated *)
Fixpoint haar_pieces (subs : list (list bin)) (os : list haar_oracle) : list raw :=
  match subs with
  | [] => []
  | s :: st => haar_table s (haar_one s (hd empty_oracle os)) ++ haar_pieces st (tl os)
  end.

Definition segment_haar (surv : list bin) (os : list haar_oracle) : list raw :=
  haar_pieces (arm_split b_lo b_hi surv) os.

End HaarPath.

(* ---- `variants=`: re-splitting the rows by hmm.variants_in_segment ------------------ *)

(* a variant row: start, end (sorted by start within the chromosome) *)
Definition vrow := (Z * Z)%type.

Definition v_overlaps (lo hi : Z) (v : vrow) : bool := (fst v <? hi) && (lo <? snd v).

(* squash_by_groups(fake_cnarr, states, by_arm=False) on one chromosome: one row per run of
   equal states -- start of its first variant, end of its last, number of variants *)
Fixpoint runs_from (cur : Z) (st en cnt : Z) (vs : list vrow) (states : list Z) : list (Z * Z * Z) :=
  match vs, states with
  | v :: vt, s :: stt =>
      if s =? cur then runs_from cur st (snd v) (cnt + 1) vt stt
      else (st, en, cnt) :: runs_from s (fst v) (snd v) 1 vt stt
  | _, _ => [(st, en, cnt)]
  end.

Definition runs_of (vs : list vrow) (states : list Z) : list (Z * Z * Z) :=
  match vs, states with
  | v :: vt, s :: stt => runs_from s (fst v) (snd v) 1 vt stt
  | _, _ => []
  end.

Definition run_start (r : Z * Z * Z) : Z := fst (fst r).
Definition run_end (r : Z * Z * Z) : Z := snd (fst r).
Definition run_count (r : Z * Z * Z) : Z := snd r.

(* mid_breakpoints = (results.start.values[1:] + results.end.values[:-1]) // 2 *)
Fixpoint mid_breaks (rs : list (Z * Z * Z)) : list Z :=
  match rs with
  | a :: ((b :: _) as t) => (run_start b + run_end a) / vseg_mid_divisor :: mid_breaks t
  | _ => []
  end.

Fixpoint rows3 (starts ends probes : list Z) (lg : option Q) : list raw :=
  match starts, ends, probes with
  | s :: st, e :: et, p :: pt => mkRaw s e p lg :: rows3 st et pt lg
  | _, _, _ => []
  end.

(* variants_in_segment(varr, segment); None = RuntimeError (a row with start >= end) *)
Definition resplit (w : raw) (vs : list vrow) (states : list Z) : option (list raw) :=
  if vseg_min_variants <? Z.of_nat (length vs) then
    let rs := runs_of vs states in
    match rs with
    | _ :: _ :: _ =>
        let mids := mid_breaks rs in
        let rows := rows3 (w_lo w :: mids) (mids ++ [w_hi w]) (map run_count rs) (w_log2 w) in
        if forallb (fun r => w_lo r <? w_hi r) rows then Some rows else None
    | _ => Some [w]
    end
  else Some [w].

(* newsegs = [variants_in_segment(subvarr, segment) for segment, subvarr in variants.by_ranges(segarr)]:
   every row with the variants overlapping it ("outer", keep_empty) and its own state path *)
Fixpoint resplit_all (ws : list raw) (vars : list vrow) (states : list (list Z)) : option (list raw) :=
  match ws with
  | [] => Some []
  | w :: wt =>
      match resplit w (filter (v_overlaps (w_lo w) (w_hi w)) vars) (hd [] states),
            resplit_all wt vars (tl states) with
      | Some a, Some b => Some (a ++ b)
      | _, _ => None
      end
  end.

(* ---- _do_segmentation on one arm, per-arm methods, all options ------------------------ *)

Inductive arm_method :=
| AGiven (m : method) (bps : list Z)          (* breakpoints taken as an oracle (none: []) *)
| AHaar (scale_u scale_w : Z -> Q) (q : Q) (os : list haar_oracle).

Definition method_rows (am : arm_method) (surv : list bin) : list raw :=
  match am with
  | AGiven m bps => map (raw_of m) (map seg_of_group (groups_of_breaks bps surv))
  | AHaar su sw q os => segment_haar su sw q surv os
  end.

Section ArmFull.
Context {B : Type} (baf : Z -> Z -> B).     (* variants.baf_by_ranges, an oracle function of the range *)

(* variants given: (variant rows of the chromosome, one state path per method row) *)
Definition arm_rows (am : arm_method) (fl : list fbin) (variants : option (list vrow * list (list Z)))
  : option (list raw) :=
  match survivors fl with
  | [] => Some []
  | surv =>
      let rows := method_rows am surv in
      match variants with
      | None => Some rows
      | Some (vars, states) => resplit_all rows vars states
      end
  end.

(* the arm's report: the rows after transfer_fields, each with the baf it was given
   (computed on the row's range BEFORE the stretch, as the code does) *)
Definition arm_full (c : string) (am : arm_method) (fl : list fbin) (variants : option (list vrow * list (list Z)))
  : option (list (seg * B)) :=
  match arm_rows am fl variants with
  | None => None
  | Some rows => Some (combine (transfer c (map fst fl) rows) (map (fun w => baf (w_lo w) (w_hi w)) rows))
  end.

End ArmFull.

(* ---- do_segmentation: the process pool and the final table ------------------------------ *)

(* concurrent.futures map: item i goes to worker assign(i); each worker returns its results
   tagged with the item's index; the futures are read in submission order *)
Section Pool.
Context {X Y : Type} (f : X -> Y).

Definition worker_results (assign : nat -> nat) (w : nat) (ixs : list (nat * X)) : list (nat * Y) :=
  map (fun ix => (fst ix, f (snd ix))) (filter (fun ix => Nat.eqb (assign (fst ix)) w) ixs).

Definition pool_map (p : nat) (assign : nat -> nat) (xs : list X) : list Y :=
  let ixs := combine (seq 0 (length xs)) xs in
  let done := concat (map (fun w => worker_results assign w ixs) (seq 0 p)) in
  flat_map (fun i => match find (fun iy => Nat.eqb (fst iy) i) done with
                     | Some iy => [snd iy]
                     | None => []
                     end) (seq 0 (length xs)).

End Pool.


(* ---- do_segmentation for the per-arm methods: jobs, pool, concat + sort -------------------- *)

Inductive table_method :=
| TGiven (m : method)                                   (* none, or breakpoints as an oracle *)
| THaar (scale_u scale_w : Z -> Q) (q : Q).             (* haar, computed *)

(* one chromosome of the input table with the oracles the harness supplies for it *)
Record chrom_job := mkCJ {
  cj_name : string;
  cj_fl : list fbin;
  cj_bps : list Z;                   (* TGiven: breakpoints into the chromosome's survivor list *)
  cj_haar : list haar_oracle;        (* THaar: one per haarSeg call, in call order *)
  cj_vars : option (list vrow);      (* the chromosome's variant rows; None: no `variants=` *)
  cj_states : list (list Z) }.       (* one state path per method row, in row order *)

(* what one call of _ds receives *)
Record arm_job := mkAJ {
  aj_name : string;
  aj_fl : list fbin;
  aj_method : arm_method;
  aj_vars : option (list vrow * list (list Z)) }.

Definition n_calls (surv : list bin) : nat :=
  match surv with [] => 0%nat | _ => length (arm_split b_lo b_hi surv) end.

Fixpoint chrom_jobs (tm : table_method) (name : string) (arms : list (list fbin)) (off : Z) (bps : list Z)
    (hos : list haar_oracle) (vars : option (list vrow)) (states : list (list Z)) : list arm_job :=
  match arms with
  | [] => []
  | a :: t =>
      let surv := survivors a in
      let k := Z.of_nat (length surv) in
      let nc := n_calls surv in
      let am := match tm with
                | TGiven m => AGiven m (method_bps m off k bps)
                | THaar su sw q => AHaar su sw q (firstn nc hos)
                end in
      let nr := match surv with [] => 0%nat | _ => length (method_rows am surv) end in
      mkAJ name a am (match vars with Some v => Some (v, firstn nr states) | None => None end)
        :: chrom_jobs tm name t (off + k) bps (skipn nc hos) vars (skipn nr states)
  end.

(* `for _, ca in cnarr.by_arm()`: chromosomes in table order, arms in order *)
Definition table_jobs (tm : table_method) (tbl : list chrom_job) : list arm_job :=
  flat_map (fun c => chrom_jobs tm (cj_name c) (chrom_arms (cj_fl c)) 0 (cj_bps c) (cj_haar c) (cj_vars c) (cj_states c)) tbl.

Section Table.
Context {B : Type} (baf : string -> Z -> Z -> B).

Definition out_row : Type := (string * (seg * B))%type.

Definition run_job (j : arm_job) : option (list out_row) :=
  match arm_full (baf (aj_name j)) (aj_name j) (aj_method j) (aj_fl j) (aj_vars j) with
  | Some rows => Some (map (fun r => (aj_name j, r)) rows)
  | None => None
  end.

Definition row_region (r : out_row) : string * Z * Z := (fst r, s_lo (fst (snd r)), s_hi (fst (snd r))).

(* cnarr.concat(rets): pd.concat + GenomicArray.sort (stable, by chromosome key, start, end) *)
Definition concat_sorted (rets : list (list out_row)) : list out_row :=
  Chromsort.sort_regions_fast row_region (concat rets).

(* do_segmentation(..., processes = p) with any assignment of the arms to the workers;
   None: a worker raised *)
Definition table_segs (p : nat) (assign : nat -> nat) (tm : table_method) (tbl : list chrom_job)
  : option (list out_row) :=
  match all_some (pool_map run_job p assign (table_jobs tm tbl)) with
  | Some rets => Some (concat_sorted rets)
  | None => None
  end.

(* the serial reference: SerialPool.map *)
Definition table_segs_serial (tm : table_method) (tbl : list chrom_job) : option (list out_row) :=
  match all_some (map run_job (table_jobs tm tbl)) with
  | Some rets => Some (concat_sorted rets)
  | None => None
  end.

End Table.
