(* Model of cnvlib.segmentation.do_segmentation at the granularity property C03
   observes: the bins of a chromosome go in, the segment rows come out.

   _do_segmentation: three bin filters (drop_low_coverage, the outlier mask --
   an ORACLE list of booleans --, the weight rule), the segmentation method
   proper reduced to an ORACLE list of breakpoints into the survivor list
   (none: no breakpoint; haar / hmm: wherever the method put them), and
   transfer_fields: stretch the first / last segment of the piece handed to it
   to the piece's first / last input bin, then recompute gene / weight / depth
   over all input bins overlapping each (stretched) segment.

   none, haar (and cbs) are run per chromosome arm (Model/Arms.v); the hmm
   methods are run once on the whole table, so only the table's very first and
   very last segment are stretched (and only if they are on the table's first /
   last chromosome). *)
From CNV Require Import Base.Prelude Base.Str Gen.Params Gen.SegDefaults Model.Arms.

Record bin := mkBin {
  b_lo : Z; b_hi : Z; b_gene : string; b_log2 : Q;
  b_weight : option Q;          (* None = NaN *)
  b_depth : Q }.

Notation fbin := (bin * bool)%type (only parsing).   (* a bin and whether it survives the filters *)

(* ---- filters ------------------------------------------------------------ *)

Definition Qltb (a b : Q) : bool := match (a ?= b)%Q with Lt => true | _ => false end.

(* CopyNumArray.drop_low_coverage *)
Definition low_coverage (b : bin) : bool :=
  Qltb (b_log2 b) (NULL_LOG2_COVERAGE - MIN_REF_COVERAGE)%Q || Qeq_bool (b_depth b) 0%Q.

(* `if min_weight: weight < min_weight else: weight == 0`, NaN counts as too low *)
Definition weight_too_low (min_weight : Q) (b : bin) : bool :=
  match b_weight b with
  | None => true
  | Some w => if Qeq_bool min_weight 0%Q then Qeq_bool w 0%Q else Qltb w min_weight
  end.

Definition survives (skip_low : bool) (min_weight : Q) (outlier : bool) (b : bin) : bool :=
  negb (skip_low && low_coverage b) && negb outlier && negb (weight_too_low min_weight b).

(* the mask is positional; a short mask is padded with false *)
Fixpoint flag_bins (skip_low : bool) (min_weight : Q) (bins : list bin) (mask : list bool) : list fbin :=
  match bins with
  | [] => []
  | b :: t => (b, survives skip_low min_weight (hd false mask) b) :: flag_bins skip_low min_weight t (tl mask)
  end.

Definition survivors (fl : list fbin) : list bin := map fst (filter snd fl).

(* ---- breakpoints -> groups of survivors ---------------------------------- *)

Definition group := (bin * list bin)%type.       (* non-empty by construction *)
Definition group_bins (g : group) : list bin := fst g :: snd g.

(* cut l (whose first element has survivor index pos) at the breakpoints bps *)
Fixpoint groups_from (pos : Z) (bps : list Z) (l : list bin) : list group :=
  match bps with
  | [] => match l with [] => [] | x :: r => [(x, r)] end
  | b :: t =>
      let n := Z.to_nat (b - pos) in
      match firstn n l with
      | [] => groups_from b t (skipn n l)
      | x :: r => (x, r) :: groups_from b t (skipn n l)
      end
  end.

Definition groups_of_breaks (bps : list Z) (l : list bin) : list group := groups_from 0 bps l.

(* segment coordinates before aggregation, with the survivors they summarise *)
Record rseg := mkR { r_lo : Z; r_hi : Z; r_group : group }.

Definition seg_of_group (g : group) : rseg :=
  mkR (b_lo (fst g)) (b_hi (last (snd g) (fst g))) g.

(* ---- transfer_fields: stretch -------------------------------------------- *)

Definition set_lo (v : Z) (s : rseg) : rseg := mkR v (r_hi s) (r_group s).
Definition set_hi (v : Z) (s : rseg) : rseg := mkR (r_lo s) v (r_group s).

Definition stretch_lo (v : Z) (l : list rseg) : list rseg :=
  match l with [] => [] | s :: t => set_lo v s :: t end.

Fixpoint stretch_hi (v : Z) (l : list rseg) : list rseg :=
  match l with
  | [] => []
  | [s] => [set_hi v s]
  | s :: t => s :: stretch_hi v t
  end.

(* ---- transfer_fields: aggregation over the overlapping input bins --------- *)

Definition overlaps (slo shi : Z) (b : bin) : bool := (b_lo b <? shi) && (slo <? b_hi b).
Definition spanned (bins : list bin) (slo shi : Z) : list bin := filter (overlaps slo shi) bins.

Definition wt0 (b : bin) : Q := match b_weight b with Some w => w | None => 0%Q end.

Fixpoint sum_weights (l : list bin) : option Q :=      (* None = NaN *)
  match l with
  | [] => Some 0%Q
  | b :: t =>
      match b_weight b, sum_weights t with
      | Some w, Some s => Some (Qred (w + s)%Q)
      | _, _ => None
      end
  end.

Definition qsum (l : list Q) : Q := fold_right (fun x a => Qred (x + a)%Q) 0%Q l.

Fixpoint qdot (xs ws : list Q) : Q :=
  match xs, ws with
  | x :: xt, w :: wt => Qred (x * w + qdot xt wt)%Q
  | _, _ => 0%Q
  end.

(* np.average(depths, weights) when the summed weight is > 0, else 0.0 (also for NaN) *)
Definition agg_depth (l : list bin) : Q :=
  match sum_weights l with
  | Some s => if Qltb 0%Q s then Qred (qdot (map b_depth l) (map wt0 l) / s)%Q else 0%Q
  | None => 0%Q
  end.

(* pd.unique: first occurrences, in order *)
Fixpoint uniq (seen : list string) (l : list string) : list string :=
  match l with
  | [] => []
  | x :: t => if mem_string x seen then uniq seen t else x :: uniq (x :: seen) t
  end.

Definition ignored_names : list string := IGNORE_GENE_NAMES ++ ANTITARGET_ALIASES.

Definition gene_field (names : list string) : string :=
  match filter (fun g => negb (mem_string g ignored_names)) (uniq [] names) with
  | [] => "-"%string
  | l => String.concat "," l
  end.

(* ---- log2 of a segment ---------------------------------------------------- *)

Definition plain_mean (xs : list Q) : Q := Qred (qsum xs / inject_Z (Z.of_nat (length xs)))%Q.
Definition wavg (xs ws : list Q) : Q := Qred (qdot xs ws / qsum ws)%Q.

(* segmetrics.segment_mean (method none): weighted if any weight is non-zero *)
Definition mean_none (g : list bin) : Q :=
  if existsb (fun w => negb (Qeq_bool w 0%Q)) (map wt0 g)
  then wavg (map b_log2 g) (map wt0 g) else plain_mean (map b_log2 g).

(* segfilters.squash_region (hmm methods): weighted if the summed weight is > 0 *)
Definition mean_squash (g : list bin) : Q :=
  if Qltb 0%Q (qsum (map wt0 g))
  then wavg (map b_log2 g) (map wt0 g) else plain_mean (map b_log2 g).

Inductive method := MNone | MHaar | MHmm.

Record seg := mkSeg {
  s_lo : Z; s_hi : Z; s_probes : Z;
  s_log2 : option Q;            (* None: not modelled (haar's own estimate) *)
  s_gene : string;
  s_weight : option Q;          (* None = NaN *)
  s_depth : Q }.

Definition seg_log2 (m : method) (g : list bin) : option Q :=
  match m with
  | MNone => Some (mean_none g)
  | MHmm => Some (mean_squash g)
  | MHaar => None
  end.

Definition finish (m : method) (bins : list bin) (r : rseg) : seg :=
  let sp := spanned bins (r_lo r) (r_hi r) in
  mkSeg (r_lo r) (r_hi r) (Z.of_nat (length (group_bins (r_group r))))
        (seg_log2 m (group_bins (r_group r)))
        (gene_field (map b_gene sp)) (sum_weights sp) (agg_depth sp).

(* ---- per-arm methods (none, haar, cbs) ------------------------------------ *)

(* _do_segmentation on one arm: no survivor -> no segment; else cut the
   survivors at the breakpoints and stretch to the arm's first / last input bin *)
Definition arm_rsegs (fl : list fbin) (bps : list Z) : list rseg :=
  match fl with
  | [] => []
  | f :: _ =>
      stretch_hi (b_hi (fst (last fl f)))
        (stretch_lo (b_lo (fst f)) (map seg_of_group (groups_of_breaks bps (survivors fl))))
  end.

Definition arm_segs (m : method) (fl : list fbin) (bps : list Z) : list seg :=
  map (finish m (map fst fl)) (arm_rsegs fl bps).

(* breakpoints are given as indices into the chromosome's survivor list; an arm
   holding survivors off .. off+k-1 sees those strictly inside, shifted *)
Definition local_bps (off k : Z) (bps : list Z) : list Z :=
  map (fun b => b - off) (filter (fun b => (off <? b) && (b <? off + k)) bps).

Definition method_bps (m : method) (off k : Z) (bps : list Z) : list Z :=
  match m with MNone => [] | _ => local_bps off k bps end.

Fixpoint arms_rsegs (m : method) (arms : list (list fbin)) (off : Z) (bps : list Z)
  : list (list bin * list rseg) :=
  match arms with
  | [] => []
  | a :: t =>
      let k := Z.of_nat (length (survivors a)) in
      (map fst a, arm_rsegs a (method_bps m off k bps)) :: arms_rsegs m t (off + k) bps
  end.

Definition fb_lo (f : fbin) : Z := b_lo (fst f).
Definition fb_hi (f : fbin) : Z := b_hi (fst f).

Definition chrom_arms (fl : list fbin) : list (list fbin) := arm_split fb_lo fb_hi fl.

Definition chrom_segs (m : method) (fl : list fbin) (bps : list Z) : list seg :=
  flat_map (fun p => map (finish m (fst p)) (snd p)) (arms_rsegs m (chrom_arms fl) 0 bps).

(* ---- whole-table methods (hmm, hmm-tumor, hmm-germline) -------------------- *)

Record chrom_in := mkChrom { c_name : string; c_fl : list fbin; c_bps : list Z }.

Definition chrom_raw (c : chrom_in) : list rseg :=
  map seg_of_group (groups_of_breaks (c_bps c) (survivors (c_fl c))).

Definition is_nil {A} (l : list A) : bool := match l with [] => true | _ => false end.

(* transfer_fields on the whole table: the first row is stretched iff it is on the
   table's first chromosome, the last row iff it is on the table's last chromosome
   (chromosome names are distinct, every chromosome has a bin), each to that
   chromosome's own first / last input bin *)
Definition chrom_hmm_rsegs (is_first is_last : bool) (c : chrom_in) : list rseg :=
  let raw := chrom_raw c in
  match c_fl c with
  | [] => raw
  | f :: _ =>
      let r1 := if is_first then stretch_lo (b_lo (fst f)) raw else raw in
      if is_last then stretch_hi (b_hi (fst (last (c_fl c) f))) r1 else r1
  end.

Definition chrom_hmm_segs (is_first is_last : bool) (c : chrom_in) : list seg :=
  map (finish MHmm (map fst (c_fl c))) (chrom_hmm_rsegs is_first is_last c).

Fixpoint hmm_rows (is_first : bool) (tbl : list chrom_in) : list (string * list seg) :=
  match tbl with
  | [] => []
  | c :: t => (c_name c, chrom_hmm_segs is_first (is_nil t) c) :: hmm_rows false t
  end.

Definition hmm_table (tbl : list chrom_in) : list (string * list seg) := hmm_rows true tbl.
