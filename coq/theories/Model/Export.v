(* Model of cnvlib/export.py (C20):
     export_bed, export_vcf / segments2vcf / assign_ci_start_end, export_seg (with
     skgenome/tabio/seg.py write_seg / format_seg / create_chrom_ids), merge_samples,
     fmt_cdt, fmt_jtv, export_nexus_basic,
   on top of the call model (Model/Call.v: chromosome classes, reference / expected
   copies, numpy round, absolute copy number of a pure sample) and of the format model
   (Model/Formats.v: SEG chromosome ids, chr:start-end labels; Model/Decimal.v).

   The code works column-wise on data frames (boolean masks, zipped columns); the model
   does the same on lists, so that the row-wise statements of Spec/Export.v are theorems
   and not definitions.  A segment carries its log2 `s_v` and the ratio `s_e = 2^log2`
   (oracle value supplied by the harness, exactly as in C01); the ratio is only used when
   the table has no `cn` column.  All literals come from Gen.ExportDefaults /
   Gen.CallDefaults / Gen.Formats.  No proofs here. *)
From CNV Require Import Base.Prelude Base.Str Model.Decimal Model.Call.
From CNV Require Import Gen.CallDefaults Gen.ExportDefaults.
From CNV Require Model.Formats Model.Ranges Gen.Formats.

Local Open Scope Z_scope.

(* ---------------------------------------------------------------- tables *)

Record seg := mkSeg {
  s_chrom : string; s_lo : Z; s_hi : Z; s_gene : string;
  s_v : Q;                  (* log2 *)
  s_e : Q;                  (* 2^log2 as the code computes it *)
  s_cn : Z;                 (* value of the cn column (read only when the table has one) *)
  s_probes : option Z       (* None: no probes column / not an integer column *)
}.

Record cfg := mkCfg {
  c_k : Z;                  (* ploidy *)
  c_hapx : bool;            (* is_haploid_x_reference *)
  c_female : bool;          (* is_sample_female *)
  c_build : option string;  (* diploid_parx_genome *)
  c_has_cn : bool           (* "cn" in segments *)
}.

Definition seg_first (rows : list seg) : string :=
  match rows with s :: _ => s_chrom s | [] => EmptyString end.

(* column-wise helpers *)
Fixpoint map2 {A B C} (f : A -> B -> C) (la : list A) (lb : list B) : list C :=
  match la, lb with
  | a :: ta, b :: tb => f a b :: map2 f ta tb
  | _, _ => []
  end.

(* frame[mask] *)
Fixpoint select {A} (m : list bool) (l : list A) : list A :=
  match m, l with
  | b :: m', x :: l' => if b then x :: select m' l' else select m' l'
  | _, _ => []
  end.

(* ---------------------------------------------------------------- copies *)

Definition seg_class (c : cfg) (first : string) (s : seg) : cls :=
  row_class (c_build c) first (s_chrom s) (s_lo s) (s_hi s).

(* get_as_dframe_and_set_reference_and_expect_copies: the two columns *)
Definition reference_col (c : cfg) (hapx : bool) (first : string) (rows : list seg) : list Z :=
  map (fun s => fst (ref_expect (c_k c) hapx (c_female c) (seg_class c first s))) rows.
Definition expect_col (c : cfg) (hapx : bool) (first : string) (rows : list seg) : list Z :=
  map (fun s => snd (ref_expect (c_k c) hapx (c_female c) (seg_class c first s))) rows.

(* absolute_expect: `is_haploid_x_reference = True` whatever the caller's reference *)
Definition absolute_expect (c : cfg) (first : string) (rows : list seg) : list Z :=
  expect_col c true first rows.

(* absolute_dataframe(segments, ploidy, 1.0, ...)["absolute"]:
   _log2_ratio_to_absolute(log2, reference, expect, purity = 1.0) *)
Definition absolute_one (s : seg) (r x : Z) : Q :=
  match use_purity (Some export_purity) with
  | Some p => abs_clonal (s_e s) r x p
  | None => abs_pure (s_e s) r
  end.

Fixpoint absolute_col (rows : list seg) (refs exps : list Z) : list Q :=
  match rows, refs, exps with
  | s :: rows', r :: refs', x :: exps' => absolute_one s r x :: absolute_col rows' refs' exps'
  | _, _, _ => []
  end.

(* the ncopies column of export_bed and segments2vcf:
   segments["cn"] if "cn" in segments else absolute_dataframe(...)["absolute"].round().astype("int") *)
Definition ncopies_col (c : cfg) (first : string) (rows : list seg) : list Z :=
  if c_has_cn c then map s_cn rows
  else map round_he (absolute_col rows (reference_col c (c_hapx c) first rows)
                                       (expect_col c (c_hapx c) first rows)).

(* the PAR masks assert the build; None = no build given *)
Definition build_fails (c : cfg) : bool :=
  match c_build c with Some b => negb (build_supported b) | None => false end.

(* ---------------------------------------------------------------- BED *)

Inductive show := ShowPloidy | ShowVariant | ShowOther.

Definition show_of (s : string) : show :=
  if String.eqb s show_ploidy then ShowPloidy
  else if String.eqb s show_variant then ShowVariant else ShowOther.

Definition bed_row : Type := string * Z * Z * string * Z.

(* `label if label else segments["gene"]` *)
Definition bed_label (label : option string) (s : seg) : string :=
  match label with
  | Some l => if String.eqb l EmptyString then s_gene s else l
  | None => s_gene s
  end.

Definition bed_rows (label : option string) (rows : list seg) (nc : list Z) : list bed_row :=
  map2 (fun s n => (s_chrom s, s_lo s, s_hi s, bed_label label s, n)) rows nc.

(* export_bed; None = AssertionError (unsupported PAR build where a PAR mask is evaluated) *)
Definition export_bed (c : cfg) (label : option string) (shw : string) (rows : list seg)
  : option (list bed_row) :=
  let first := seg_first rows in
  let sh := show_of shw in
  let needs_masks := negb (c_has_cn c) || match sh with ShowVariant => true | _ => false end in
  if needs_masks && build_fails c then None else
  let nc := ncopies_col c first rows in
  let out := bed_rows label rows nc in
  Some (match sh with
        | ShowPloidy => select (map (fun n => negb (n =? c_k c)) nc) out
        | ShowVariant => select (map2 (fun n x => negb (n =? x)) nc (absolute_expect c first rows)) out
        | ShowOther => out
        end).

(* ---------------------------------------------------------------- VCF *)

(* CIPOS / CIEND pairs; None = nan *)
Definition ciquad : Type := (option Z * option Z) * (option Z * option Z).

Record vcf_rec := mkVcf {
  v_chrom : string; v_pos : Z; v_id : string; v_ref : string; v_alt : string;
  v_qual : string; v_filter : string;
  v_svtype : string; v_end : Z; v_svlen : Z; v_fold : Q; v_log2 : Q; v_probes : Z;
  v_ci : option ciquad;
  v_format : string; v_sample : string
}.

(* segments.start.replace(0, 1) *)
Definition vcf_pos (lo : Z) : Z := if lo =? vcf_pos_from then vcf_pos_to else lo.

(* str(probes).isdigit() on an integer column *)
Definition probes_digit (s : seg) : option Z :=
  match s_probes s with
  | Some p => if 0 <=? p then Some p else None
  | None => None
  end.

Definition colon (a b : string) : string := (a ++ ":" ++ b)%string.

(* the sample column: gains carry GT:GQ:CN:CNQ, losses GT:GQ *)
Definition genotype (n x p : Z) : string :=
  if x <? n then colon gt_gain (colon gq_gain (colon (print_Z n) (print_Z p)))
  else colon (if n =? gt_hom_at then gt_loss_hom else gt_loss_het) (print_Z p).

Definition vcf_one (s : seg) (n x : Z) (loss : bool) (svlen : Z) (ci : option ciquad) (p : Z) : vcf_rec :=
  let svtype := if loss then svtype_loss else svtype_gain in
  mkVcf (s_chrom s) (vcf_pos (s_lo s)) vcf_id vcf_ref ("<" ++ svtype ++ ">")%string vcf_qual vcf_filter
        svtype (s_hi s) svlen (s_e s) (s_v s) p ci
        (if loss then format_loss else format_gain) (genotype n x p).

(* the loop over zip(out_dframe.itertuples(), abs_expect) *)
Fixpoint vcf_loop (rows : list seg) (nc ex : list Z) (losses : list bool) (svlen : list Z)
  (cis : list (option ciquad)) : list vcf_rec :=
  match rows, nc, ex, losses, svlen, cis with
  | s :: rows', n :: nc', x :: ex', l :: losses', d :: svlen', ci :: cis' =>
      let rest := vcf_loop rows' nc' ex' losses' svlen' cis' in
      if n =? x then rest
      else match probes_digit s with
           | Some p => vcf_one s n x l d ci p :: rest
           | None => rest
           end
  | _, _, _, _, _, _ => []
  end.

Definition osub (a : option Z) (b : Z) : option Z := option_map (fun x => x - b) a.
Definition rsub (a : Z) (b : option Z) : option Z := option_map (fun x => a - x) b.
Definition oneg (a : option Z) : option Z := option_map Z.opp a.

Fixpoint zip4 {A B C D} (a : list A) (b : list B) (c : list C) (d : list D) : list ((A * B) * (C * D)) :=
  match a, b, c, d with
  | x :: a', y :: b', z :: c', w :: d' => ((x, y), (z, w)) :: zip4 a' b' c' d'
  | _, _, _, _ => []
  end.

(* the four CI columns from (ci_left, ci_right) per segment; None when their lengths
   cannot be assembled into the frame (np.r_ of an empty table has one element) *)
Definition ci_columns (rows : list seg) (ci : list (option Z * option Z)) : option (list (option ciquad)) :=
  match rows with
  | [] => None
  | _ =>
      let left_margin := map2 (fun s c => osub (fst c) (s_lo s)) rows ci in
      let right_margin := map2 (fun s c => rsub (s_hi s) (snd c)) rows ci in
      let pos_left := Some ci_edge :: map oneg (removelast right_margin) in
      let end_right := tl left_margin ++ [Some ci_edge] in
      Some (map Some (zip4 pos_left left_margin right_margin end_right))
  end.

(* assign_ci_start_end: cnarr.by_ranges(segarr, mode="outer"): first bin's end, last bin's start *)
Fixpoint to_trows (i : Z) (l : list (string * Z * Z)) : list Ranges.trow :=
  match l with
  | [] => []
  | (c, lo, hi) :: t => (c, Ranges.mkRow i lo hi) :: to_trows (i + 1) t
  end.

Definition seg_region (s : seg) : string * Z * Z := (s_chrom s, s_lo s, s_hi s).

Definition assign_ci (bins : list (string * Z * Z)) (rows : list seg) : list (option Z * option Z) :=
  map (fun p : Ranges.trow * list Ranges.row =>
         match snd p with
         | [] => (None, None)
         | b :: t => (Some (Ranges.r_hi b), Some (Ranges.r_lo (last t b)))
         end)
      (Ranges.ga_by_ranges (to_trows 0 bins) (to_trows 0 (map seg_region rows)) Ranges.QOuter true).

Inductive vcf_result :=
| VcfAssert                       (* AssertionError: unsupported PAR build *)
| VcfShape                        (* ValueError: CI columns do not fit the table *)
| VcfOk (recs : list vcf_rec).

(* segments2vcf; `ci` = the ci_left / ci_right columns when the table has them *)
Definition segments2vcf (c : cfg) (rows : list seg) (ci : option (list (option Z * option Z))) : vcf_result :=
  let first := seg_first rows in
  if build_fails c then VcfAssert else
  let nc := ncopies_col c first rows in
  let ex := if c_has_cn c then absolute_expect c first rows else expect_col c (c_hapx c) first rows in
  let losses := map2 (fun n x => n <? x) nc ex in
  let svlen := map2 (fun s (l : bool) => let d := s_hi s - s_lo s in if l then d * svlen_loss_sign else d)
                    rows losses in
  match ci with
  | None => VcfOk (vcf_loop rows nc ex losses svlen (map (fun _ => None) rows))
  | Some cols =>
      if negb (length cols =? length rows)%nat then VcfShape else
      match ci_columns rows cols with
      | Some cis => VcfOk (vcf_loop rows nc ex losses svlen cis)
      | None => VcfShape
      end
  end.

(* export_vcf: header columns + body; `bins` = the optional .cnr table (`if cnarr:` is
   false for an empty one) *)
Definition export_vcf (c : cfg) (sample_id : option string) (table_id : string) (rows : list seg)
  (bins : option (list (string * Z * Z))) : list string * vcf_result :=
  let sid := match sample_id with
             | Some s => if String.eqb s EmptyString then table_id else s
             | None => table_id
             end in
  let ci := match bins with
            | Some ((_ :: _) as b) => Some (assign_ci b rows)
            | _ => None
            end in
  (vcf_columns ++ [sid], segments2vcf c rows ci).

(* ---------------------------------------------------------------- SEG *)

(* ID, chrom (name or enumerated id), loc.start, loc.end, num.mark, seg.mean *)
Definition seg_out : Type := string * string * Z * Z * option Z * Q.

Inductive chrom_ids_arg := IdsNone | IdsTrue | IdsFalse.

(* create_chrom_ids(first sample) *)
Definition chrom_ids_of (first : list seg) : list (string * string) :=
  Formats.chrom_ids_aux (Formats.distinct_names [] (map s_chrom first)) seg_first_id.

(* format_seg *)
Definition format_seg (ids : list (string * string)) (sid : string) (rows : list seg) : list seg_out :=
  map (fun s => (sid, Formats.lookup (s_chrom s) ids, s_lo s + seg_start_off, s_hi s, s_probes s, s_v s)) rows.

(* write_seg(dframes, sample_ids, chrom_ids); None = ValueError (no sample at all) *)
Definition write_seg (arg : chrom_ids_arg) (samples : list (string * list seg)) : option (list seg_out) :=
  match samples with
  | [] => None
  | (_, first) :: _ =>
      let ids := match arg with IdsFalse => [] | _ => chrom_ids_of first end in
      Some (concat (map (fun sr => format_seg ids (fst sr) (snd sr)) samples))
  end.

(* export_seg(sample_fnames, chrom_ids=False) *)
Definition export_seg (arg : option chrom_ids_arg) (samples : list (string * list seg)) : option (list seg_out) :=
  write_seg (match arg with
             | Some a => a
             | None => if seg_chrom_ids_default then IdsTrue else IdsFalse
             end) samples.

(* ---------------------------------------------------------------- merge_samples, CDT, JTV *)

Record bin := mkBin { b_chrom : string; b_lo : Z; b_hi : Z; b_gene : string; b_v : Q }.

(* f"{row.chromosome}:{row.start}-{row.end}:{row.gene}" *)
Definition bin_label (b : bin) : string :=
  (b_chrom b ++ ":" ++ print_Z (b_lo b + label_start_off) ++ "-" ++ print_Z (b_hi b) ++ ":" ++ b_gene b)%string.

Fixpoint list_eqb {A} (eqb : A -> A -> bool) (a b : list A) : bool :=
  match a, b with
  | [], [] => true
  | x :: a', y :: b' => eqb x y && list_eqb eqb a' b'
  | _, _ => false
  end.

(* the merged table: label column and one (sample id, log2 column) per sample, in order *)
Record merged := mkMerged { m_labels : list string; m_cols : list (string * list Q) }.

Inductive merge_result :=
| MergeNone                               (* no file names: [] *)
| MergeMismatch (k : nat)                 (* ValueError: Mismatched row coordinates in <k-th file> *)
| MergeDuplicate (sid : string)           (* ValueError: Duplicate sample ID *)
| MergeReserved (sid : string)            (* first sample id collides with a table column: not modelled *)
| MergeOk (m : merged).

Definition column_names (m : merged) : list string := merge_reserved ++ map fst (m_cols m).

Fixpoint merge_rest (m : merged) (k : nat) (rest : list (string * list bin)) : merge_result :=
  match rest with
  | [] => MergeOk m
  | (sid, bins) :: rest' =>
      if negb ((length bins =? length (m_labels m))%nat
               && list_eqb String.eqb (map bin_label bins) (m_labels m))
      then MergeMismatch k
      else if mem_string sid (column_names m) then MergeDuplicate sid
      else merge_rest (mkMerged (m_labels m) (m_cols m ++ [(sid, map b_v bins)])) (S k) rest'
  end.

Definition merge_samples (samples : list (string * list bin)) : merge_result :=
  match samples with
  | [] => MergeNone
  | (sid, bins) :: rest =>
      if mem_string sid merge_reserved then MergeReserved sid
      else merge_rest (mkMerged (map bin_label bins) [(sid, map b_v bins)]) 1%nat rest
  end.

(* the rows of the merged frame: label and the samples' values, column order = sample order *)
Fixpoint matrix_rows (labels : list string) (cols : list (list Q)) : list (string * list Q) :=
  match labels with
  | [] => []
  | l :: labels' => (l, map (hd 0%Q) cols) :: matrix_rows labels' (map (@tl Q) cols)
  end.

Definition merged_rows (m : merged) : list (string * list Q) :=
  matrix_rows (m_labels m) (map snd (m_cols m)).

(* str(i).zfill(w) for i >= 0 *)
Definition zfill (w : Z) (s : string) : string :=
  (unchars (repeat "0"%char (Z.to_nat (w - Z.of_nat (String.length s)))) ++ s)%string.

Fixpoint arry_ids (i : Z) (ids : list string) : list string :=
  match ids with
  | [] => []
  | _ :: t => (cdt_arry_prefix ++ zfill cdt_arry_width (print_Z i) ++ cdt_arry_suffix)%string :: arry_ids (i + 1) t
  end.

(* GID, CLID, NAME, GWEIGHT, values *)
Definition cdt_row : Type := string * string * string * Z * list Q.

Fixpoint cdt_rows (i : Z) (rows : list (string * list Q)) : list cdt_row :=
  match rows with
  | [] => []
  | (l, vs) :: t =>
      ((cdt_gid_prefix ++ print_Z i ++ cdt_gid_suffix)%string, (cdt_clid_prefix ++ print_Z i)%string,
       l, cdt_gweight, vs) :: cdt_rows (i + 1) t
  end.

(* fmt_cdt(sample_ids, table): header, the two fixed rows, one row per bin
   (the frame index after reading a file is 0 .. n-1) *)
Definition fmt_cdt (sample_ids : list string) (m : merged)
  : list string * (list string * list string) * list cdt_row :=
  (cdt_header ++ sample_ids,
   (cdt_header2 ++ arry_ids 0 sample_ids, cdt_header3 ++ map (fun _ => cdt_eweight) sample_ids),
   cdt_rows 0 (merged_rows m)).

(* fmt_jtv: CloneID, Name, values *)
Definition fmt_jtv (sample_ids : list string) (m : merged)
  : list string * list (string * string * list Q) :=
  (jtv_header ++ sample_ids, map (fun r => (jtv_clone, fst r, snd r)) (merged_rows m)).

(* ---------------------------------------------------------------- nexus-basic *)

(* chromosome, start, end, gene, log2, probe = chr:start+1-end *)
Definition nexus_row : Type := string * Z * Z * string * Q * string.

Definition export_nexus_basic (bins : list bin) : list nexus_row :=
  map (fun b => (b_chrom b, b_lo b, b_hi b, b_gene b, b_v b,
                 Formats.to_label (b_chrom b, b_lo b, b_hi b))) bins.
