(* Model of cnvlib/export.py (C20):
     export_bed, export_vcf / segments2vcf / assign_ci_start_end, export_seg (with
     skgenome/tabio/seg.py write_seg / format_seg / create_chrom_ids), merge_samples,
     fmt_cdt, fmt_jtv, export_nexus_basic,
   on top of the call model (Model/Call.v: chromosome classes, reference / expected
   copies, numpy round, absolute copy number of a pure sample) and of the format model
   (Model/Formats.v: SEG chromosome ids, chr:start-end labels; Model/Decimal.v).

   The code works column-wise on data frames (boolean masks, zipped columns); the model
   does the same on lists, so that the row-wise statements of Spec/Export.v are theorems
   and not definitions.  A segment carries its log2 `s_v` and the ratio `s_e = 2^log2`
   (oracle value supplied by the harness, exactly as in C01); the ratio is only used when
   the table has no `cn` column.  All literals come from Gen.ExportDefaults /
   Gen.CallDefaults / Gen.Formats.  No proofs here. *)
From CNV Require Import Base.Prelude Base.Str Model.Decimal Model.Call.
From CNV Require Import Gen.CallDefaults Gen.ExportDefaults.
From CNV Require Model.Formats Model.Ranges Gen.Formats Model.Vcf Model.VBaf.

Local Open Scope Z_scope.

(* ---------------------------------------------------------------- tables *)

Record seg := mkSeg {
  s_chrom : string; s_lo : Z; s_hi : Z; s_gene : string;
  s_v : Q;                  (* log2 *)
  s_e : Q;                  (* 2^log2 as the code computes it *)
  s_cn : Z;                 (* value of the cn column (read only when the table has one) *)
  s_probes : option Z       (* None: no probes column / not an integer column *)
}.

Record cfg := mkCfg {
  c_k : Z;                  (* ploidy *)
  c_hapx : bool;            (* is_haploid_x_reference *)
  c_female : bool;          (* is_sample_female *)
  c_build : option string;  (* diploid_parx_genome *)
  c_has_cn : bool           (* "cn" in segments *)
}.

Definition seg_first (rows : list seg) : string :=
  match rows with s :: _ => s_chrom s | [] => EmptyString end.

(* column-wise helpers *)
Fixpoint map2 {A B C} (f : A -> B -> C) (la : list A) (lb : list B) : list C :=
  match la, lb with
  | a :: ta, b :: tb => f a b :: map2 f ta tb
  | _, _ => []
  end.

(* frame[mask] *)
Fixpoint select {A} (m : list bool) (l : list A) : list A :=
  match m, l with
  | b :: m', x :: l' => if b then x :: select m' l' else select m' l'
  | _, _ => []
  end.

(* ---------------------------------------------------------------- copies *)

Definition seg_class (c : cfg) (first : string) (s : seg) : cls :=
  row_class (c_build c) first (s_chrom s) (s_lo s) (s_hi s).

(* get_as_dframe_and_set_reference_and_expect_copies: the two columns *)
Definition reference_col (c : cfg) (hapx : bool) (first : string) (rows : list seg) : list Z :=
  map (fun s => fst (ref_expect (c_k c) hapx (c_female c) (seg_class c first s))) rows.
Definition expect_col (c : cfg) (hapx : bool) (first : string) (rows : list seg) : list Z :=
  map (fun s => snd (ref_expect (c_k c) hapx (c_female c) (seg_class c first s))) rows.

(* absolute_expect: `is_haploid_x_reference = True` whatever the caller's reference *)
Definition absolute_expect (c : cfg) (first : string) (rows : list seg) : list Z :=
  expect_col c true first rows.

(* absolute_dataframe(segments, ploidy, 1.0, ...)["absolute"]:
   _log2_ratio_to_absolute(log2, reference, expect, purity = 1.0) *)
Definition absolute_one (s : seg) (r x : Z) : Q :=
  match use_purity (Some export_purity) with
  | Some p => abs_clonal (s_e s) r x p
  | None => abs_pure (s_e s) r
  end.

Fixpoint absolute_col (rows : list seg) (refs exps : list Z) : list Q :=
  match rows, refs, exps with
  | s :: rows', r :: refs', x :: exps' => absolute_one s r x :: absolute_col rows' refs' exps'
  | _, _, _ => []
  end.

(* the ncopies column of export_bed and segments2vcf:
   segments["cn"] if "cn" in segments else absolute_dataframe(...)["absolute"].round().astype("int") *)
Definition ncopies_col (c : cfg) (first : string) (rows : list seg) : list Z :=
  if c_has_cn c then map s_cn rows
  else map round_he (absolute_col rows (reference_col c (c_hapx c) first rows)
                                       (expect_col c (c_hapx c) first rows)).

(* the PAR masks assert the build; None = no build given *)
Definition build_fails (c : cfg) : bool :=
  match c_build c with Some b => negb (build_supported b) | None => false end.

(* ---------------------------------------------------------------- BED *)

Inductive show := ShowPloidy | ShowVariant | ShowOther.

Definition show_of (s : string) : show :=
  if String.eqb s show_ploidy then ShowPloidy
  else if String.eqb s show_variant then ShowVariant else ShowOther.

Definition bed_row : Type := string * Z * Z * string * Z.

(* `label if label else segments["gene"]` *)
Definition bed_label (label : option string) (s : seg) : string :=
  match label with
  | Some l => if String.eqb l EmptyString then s_gene s else l
  | None => s_gene s
  end.

Definition bed_rows (label : option string) (rows : list seg) (nc : list Z) : list bed_row :=
  map2 (fun s n => (s_chrom s, s_lo s, s_hi s, bed_label label s, n)) rows nc.

(* export_bed; None = AssertionError (unsupported PAR build where a PAR mask is evaluated) *)
Definition export_bed (c : cfg) (label : option string) (shw : string) (rows : list seg)
  : option (list bed_row) :=
  let first := seg_first rows in
  let sh := show_of shw in
  let needs_masks := negb (c_has_cn c) || match sh with ShowVariant => true | _ => false end in
  if needs_masks && build_fails c then None else
  let nc := ncopies_col c first rows in
  let out := bed_rows label rows nc in
  Some (match sh with
        | ShowPloidy => select (map (fun n => negb (n =? c_k c)) nc) out
        | ShowVariant => select (map2 (fun n x => negb (n =? x)) nc (absolute_expect c first rows)) out
        | ShowOther => out
        end).

(* ---------------------------------------------------------------- VCF *)

(* CIPOS / CIEND pairs; None = nan *)
Definition ciquad : Type := (option Z * option Z) * (option Z * option Z).

Record vcf_rec := mkVcf {
  v_chrom : string; v_pos : Z; v_id : string; v_ref : string; v_alt : string;
  v_qual : string; v_filter : string;
  v_svtype : string; v_end : Z; v_svlen : Z; v_fold : Q; v_log2 : Q; v_probes : Z;
  v_ci : option ciquad;
  v_format : string; v_sample : string
}.

(* segments.start.replace(0, 1) *)
Definition vcf_pos (lo : Z) : Z := if lo =? vcf_pos_from then vcf_pos_to else lo.

(* str(probes).isdigit() on an integer column *)
Definition probes_digit (s : seg) : option Z :=
  match s_probes s with
  | Some p => if 0 <=? p then Some p else None
  | None => None
  end.

Definition colon (a b : string) : string := (a ++ ":" ++ b)%string.

(* the sample column: gains carry GT:GQ:CN:CNQ, losses GT:GQ *)
Definition genotype (n x p : Z) : string :=
  if x <? n then colon gt_gain (colon gq_gain (colon (print_Z n) (print_Z p)))
  else colon (if n =? gt_hom_at then gt_loss_hom else gt_loss_het) (print_Z p).

Definition vcf_one (s : seg) (n x : Z) (loss : bool) (svlen : Z) (ci : option ciquad) (p : Z) : vcf_rec :=
  let svtype := if loss then svtype_loss else svtype_gain in
  mkVcf (s_chrom s) (vcf_pos (s_lo s)) vcf_id vcf_ref ("<" ++ svtype ++ ">")%string vcf_qual vcf_filter
        svtype (s_hi s) svlen (s_e s) (s_v s) p ci
        (if loss then format_loss else format_gain) (genotype n x p).

(* the loop over zip(out_dframe.itertuples(), abs_expect) *)
Fixpoint vcf_loop (rows : list seg) (nc ex : list Z) (losses : list bool) (svlen : list Z)
  (cis : list (option ciquad)) : list vcf_rec :=
  match rows, nc, ex, losses, svlen, cis with
  | s :: rows', n :: nc', x :: ex', l :: losses', d :: svlen', ci :: cis' =>
      let rest := vcf_loop rows' nc' ex' losses' svlen' cis' in
      if n =? x then rest
      else match probes_digit s with
           | Some p => vcf_one s n x l d ci p :: rest
           | None => rest
           end
  | _, _, _, _, _, _ => []
  end.

Definition osub (a : option Z) (b : Z) : option Z := option_map (fun x => x - b) a.
Definition rsub (a : Z) (b : option Z) : option Z := option_map (fun x => a - x) b.
Definition oneg (a : option Z) : option Z := option_map Z.opp a.

Fixpoint zip4 {A B C D} (a : list A) (b : list B) (c : list C) (d : list D) : list ((A * B) * (C * D)) :=
  match a, b, c, d with
  | x :: a', y :: b', z :: c', w :: d' => ((x, y), (z, w)) :: zip4 a' b' c' d'
  | _, _, _, _ => []
  end.

(* the four CI columns from (ci_left, ci_right) per segment; None when their lengths
   cannot be assembled into the frame (np.r_ of an empty table has one element) *)
Definition ci_columns (rows : list seg) (ci : list (option Z * option Z)) : option (list (option ciquad)) :=
  match rows with
  | [] => None
  | _ =>
      let left_margin := map2 (fun s c => osub (fst c) (s_lo s)) rows ci in
      let right_margin := map2 (fun s c => rsub (s_hi s) (snd c)) rows ci in
      let pos_left := Some ci_edge :: map oneg (removelast right_margin) in
      let end_right := tl left_margin ++ [Some ci_edge] in
      Some (map Some (zip4 pos_left left_margin right_margin end_right))
  end.

(* assign_ci_start_end: cnarr.by_ranges(segarr, mode="outer"): first bin's end, last bin's start *)
Fixpoint to_trows (i : Z) (l : list (string * Z * Z)) : list Ranges.trow :=
  match l with
  | [] => []
  | (c, lo, hi) :: t => (c, Ranges.mkRow i lo hi) :: to_trows (i + 1) t
  end.

Definition seg_region (s : seg) : string * Z * Z := (s_chrom s, s_lo s, s_hi s).

Definition assign_ci (bins : list (string * Z * Z)) (rows : list seg) : list (option Z * option Z) :=
  map (fun p : Ranges.trow * list Ranges.row =>
         match snd p with
         | [] => (None, None)
         | b :: t => (Some (Ranges.r_hi b), Some (Ranges.r_lo (last t b)))
         end)
      (Ranges.ga_by_ranges (to_trows 0 bins) (to_trows 0 (map seg_region rows)) Ranges.QOuter true).

Inductive vcf_result :=
| VcfAssert                       (* AssertionError: unsupported PAR build *)
| VcfShape                        (* ValueError: CI columns do not fit the table *)
| VcfOk (recs : list vcf_rec).

(* segments2vcf; `ci` = the ci_left / ci_right columns when the table has them *)
Definition segments2vcf (c : cfg) (rows : list seg) (ci : option (list (option Z * option Z))) : vcf_result :=
  let first := seg_first rows in
  if build_fails c then VcfAssert else
  let nc := ncopies_col c first rows in
  let ex := if c_has_cn c then absolute_expect c first rows else expect_col c (c_hapx c) first rows in
  let losses := map2 (fun n x => n <? x) nc ex in
  let svlen := map2 (fun s (l : bool) => let d := s_hi s - s_lo s in if l then d * svlen_loss_sign else d)
                    rows losses in
  match ci with
  | None => VcfOk (vcf_loop rows nc ex losses svlen (map (fun _ => None) rows))
  | Some cols =>
      if negb (length cols =? length rows)%nat then VcfShape else
      match ci_columns rows cols with
      | Some cis => VcfOk (vcf_loop rows nc ex losses svlen cis)
      | None => VcfShape
      end
  end.

(* export_vcf: header columns + body; `bins` = the optional .cnr table (`if cnarr:` is
   false for an empty one) *)
Definition vcf_sample_id (sample_id : option string) (table_id : string) : string :=
  match sample_id with
  | Some s => if String.eqb s EmptyString then table_id else s
  | None => table_id
  end.

(* `if cnarr: segments = assign_ci_start_end(segments, cnarr)` *)
Definition vcf_ci_source (bins : option (list (string * Z * Z))) (rows : list seg)
  : option (list (option Z * option Z)) :=
  match bins with
  | Some ((_ :: _) as b) => Some (assign_ci b rows)
  | _ => None
  end.

Definition export_vcf (c : cfg) (sample_id : option string) (table_id : string) (rows : list seg)
  (bins : option (list (string * Z * Z))) : list string * vcf_result :=
  (vcf_columns ++ [vcf_sample_id sample_id table_id], segments2vcf c rows (vcf_ci_source bins rows)).

(* ---------------------------------------------------------------- VCF: text layer *)

(* the rows of the table that get a record (the loop's `continue` condition, negated) *)
Fixpoint vcf_keep (rows : list seg) (nc ex : list Z) : list bool :=
  match rows, nc, ex with
  | s :: rows', n :: nc', x :: ex' =>
      (negb (n =? x) && match probes_digit s with Some _ => true | None => false end) :: vcf_keep rows' nc' ex'
  | _, _, _ => []
  end.

Definition is_none {A} (o : option A) : bool := match o with None => true | Some _ => false end.

Definition tab : string := String (ascii_of_nat 9) EmptyString.
Definition nan_text : string := "nan".

(* f"{value}" of an element of an int64 / float64 (fl) numpy column; `neg`: the element was
   obtained by negating z in that dtype (-0.0 prints as "-0.0") *)
Definition num_text (fl neg : bool) (v : option Z) : string :=
  match v with
  | None => nan_text
  | Some z =>
      let z' := if neg then - z else z in
      let body := if neg && (z =? 0) then "-0"%string else print_Z z' in
      if fl then (body ++ ".0")%string else print_Z z'
  end.

Definition ci_field (parts : string * string * string) (a b : string) : string :=
  let '(open, mid, close) := parts in (open ++ a ++ mid ++ b ++ close)%string.

(* the CIPOS / CIEND texts of every row of the table: a ci column holding a NaN is a float64
   column, and so are the margins computed from it *)
Definition ci_text_columns (rows : list seg) (ci : list (option Z * option Z)) : list (string * string) :=
  let flL := existsb (fun c => is_none (fst c)) ci in
  let flR := existsb (fun c => is_none (snd c)) ci in
  let left_margin := map2 (fun s c => osub (fst c) (s_lo s)) rows ci in
  let right_margin := map2 (fun s c => rsub (s_hi s) (snd c)) rows ci in
  let pos_left := num_text flR false (Some ci_edge) :: map (num_text flR true) (removelast right_margin) in
  let pos_right := map (num_text flL false) left_margin in
  let end_left := map (num_text flR false) right_margin in
  let end_right := map (num_text flL false) (tl left_margin) ++ [num_text flL false (Some ci_edge)] in
  map2 (fun a b => (a, b)) (map2 (ci_field info_cipos) pos_left pos_right)
                           (map2 (ci_field info_ciend) end_left end_right).

(* per record: the CI texts of its row, None without ci columns *)
Definition vcf_ci_texts (c : cfg) (rows : list seg) (ci : option (list (option Z * option Z)))
  : list (option (string * string)) :=
  let first := seg_first rows in
  let nc := ncopies_col c first rows in
  let ex := if c_has_cn c then absolute_expect c first rows else expect_col c (c_hapx c) first rows in
  let keep := vcf_keep rows nc ex in
  match ci with
  | None => map (fun _ => None) (select keep rows)
  | Some cols => map Some (select keep (ci_text_columns rows cols))
  end.

(* `tok`: the texts of 2.0 ** log2 and of log2 as Python prints a float (oracle strings,
   supplied by the harness: float printing is outside the model) *)
Definition info_text (r : vcf_rec) (tok : string * string) (ci : option (string * string)) : string :=
  String.concat info_sep
    (info_flag
     :: map2 String.append info_keys
             [v_svtype r; print_Z (v_end r); print_Z (v_svlen r); fst tok; snd tok; print_Z (v_probes r)]
     ++ match ci with Some (a, b) => [a; b] | None => [] end).

(* one line of DataFrame.to_csv(sep="\t", index=False) *)
Definition vcf_line (r : vcf_rec) (tok : string * string) (ci : option (string * string)) : string :=
  String.concat tab [v_chrom r; print_Z (v_pos r); v_id r; v_ref r; v_alt r; v_qual r; v_filter r;
                     info_text r tok ci; v_format r; v_sample r].

Fixpoint map3 {A B C D} (f : A -> B -> C -> D) (la : list A) (lb : list B) (lc : list C) : list D :=
  match la, lb, lc with
  | a :: ta, b :: tb, c :: tc => f a b c :: map3 f ta tb tc
  | _, _, _ => []
  end.

(* VCF_HEADER: the template's lines with {date} and {version} filled in *)
Definition fill_chunk (date version : string) (ch : bool * string) : string :=
  if fst ch then
    (if String.eqb (snd ch) vcf_ph_date then date
     else if String.eqb (snd ch) vcf_ph_version then version else EmptyString)
  else snd ch.

Definition vcf_header_lines (date version : string) : list string :=
  map (fun chunks => String.concat EmptyString (map (fill_chunk date version) chunks)) vcf_header_template.

Inductive text_result :=
| TextAssert | TextShape
| TextOk (body : list string).       (* the column line, then one line per record *)

Definition export_vcf_text (c : cfg) (sample_id : option string) (table_id : string) (rows : list seg)
  (bins : option (list (string * Z * Z))) (toks : list (string * string)) : text_result :=
  let '(hdr, res) := export_vcf c sample_id table_id rows bins in
  match res with
  | VcfAssert => TextAssert
  | VcfShape => TextShape
  | VcfOk recs =>
      TextOk (String.concat tab hdr :: map3 vcf_line recs toks (vcf_ci_texts c rows (vcf_ci_source bins rows)))
  end.

(* ---------------------------------------------------------------- SEG *)

(* ID, chrom (name or enumerated id), loc.start, loc.end, num.mark, seg.mean *)
Definition seg_out : Type := string * string * Z * Z * option Z * Q.

Inductive chrom_ids_arg := IdsNone | IdsTrue | IdsFalse.

(* create_chrom_ids(first sample) *)
Definition chrom_ids_of (first : list seg) : list (string * string) :=
  Formats.chrom_ids_aux (Formats.distinct_names [] (map s_chrom first)) seg_first_id.

(* format_seg *)
Definition format_seg (ids : list (string * string)) (sid : string) (rows : list seg) : list seg_out :=
  map (fun s => (sid, Formats.lookup (s_chrom s) ids, s_lo s + seg_start_off, s_hi s, s_probes s, s_v s)) rows.

(* write_seg(dframes, sample_ids, chrom_ids); None = ValueError (no sample at all) *)
Definition write_seg (arg : chrom_ids_arg) (samples : list (string * list seg)) : option (list seg_out) :=
  match samples with
  | [] => None
  | (_, first) :: _ =>
      let ids := match arg with IdsFalse => [] | _ => chrom_ids_of first end in
      Some (concat (map (fun sr => format_seg ids (fst sr) (snd sr)) samples))
  end.

(* export_seg(sample_fnames, chrom_ids=False) *)
Definition export_seg (arg : option chrom_ids_arg) (samples : list (string * list seg)) : option (list seg_out) :=
  write_seg (match arg with
             | Some a => a
             | None => if seg_chrom_ids_default then IdsTrue else IdsFalse
             end) samples.

(* ---------------------------------------------------------------- merge_samples, CDT, JTV *)

Record bin := mkBin { b_chrom : string; b_lo : Z; b_hi : Z; b_gene : string; b_v : Q }.

(* f"{row.chromosome}:{row.start}-{row.end}:{row.gene}" *)
Definition bin_label (b : bin) : string :=
  (b_chrom b ++ ":" ++ print_Z (b_lo b + label_start_off) ++ "-" ++ print_Z (b_hi b) ++ ":" ++ b_gene b)%string.

Fixpoint list_eqb {A} (eqb : A -> A -> bool) (a b : list A) : bool :=
  match a, b with
  | [], [] => true
  | x :: a', y :: b' => eqb x y && list_eqb eqb a' b'
  | _, _ => false
  end.

(* the merged table: label column and one (sample id, log2 column) per sample, in order *)
Record merged := mkMerged { m_labels : list string; m_cols : list (string * list Q) }.

Inductive merge_result :=
| MergeNone                               (* no file names: [] *)
| MergeMismatch (k : nat)                 (* ValueError: Mismatched row coordinates in <k-th file> *)
| MergeDuplicate (sid : string)           (* ValueError: Duplicate sample ID *)
| MergeReserved (sid : string)            (* first sample id collides with a table column: not modelled *)
| MergeOk (m : merged).

Definition column_names (m : merged) : list string := merge_reserved ++ map fst (m_cols m).

Fixpoint merge_rest (m : merged) (k : nat) (rest : list (string * list bin)) : merge_result :=
  match rest with
  | [] => MergeOk m
  | (sid, bins) :: rest' =>
      if negb ((length bins =? length (m_labels m))%nat
               && list_eqb String.eqb (map bin_label bins) (m_labels m))
      then MergeMismatch k
      else if mem_string sid (column_names m) then MergeDuplicate sid
      else merge_rest (mkMerged (m_labels m) (m_cols m ++ [(sid, map b_v bins)])) (S k) rest'
  end.

Definition merge_samples (samples : list (string * list bin)) : merge_result :=
  match samples with
  | [] => MergeNone
  | (sid, bins) :: rest =>
      if mem_string sid merge_reserved then MergeReserved sid
      else merge_rest (mkMerged (map bin_label bins) [(sid, map b_v bins)]) 1%nat rest
  end.

(* the rows of the merged frame: label and the samples' values, column order = sample order *)
Fixpoint matrix_rows (labels : list string) (cols : list (list Q)) : list (string * list Q) :=
  match labels with
  | [] => []
  | l :: labels' => (l, map (hd 0%Q) cols) :: matrix_rows labels' (map (@tl Q) cols)
  end.

Definition merged_rows (m : merged) : list (string * list Q) :=
  matrix_rows (m_labels m) (map snd (m_cols m)).

(* str(i).zfill(w) for i >= 0 *)
Definition zfill (w : Z) (s : string) : string :=
  (unchars (repeat "0"%char (Z.to_nat (w - Z.of_nat (String.length s)))) ++ s)%string.

Fixpoint arry_ids (i : Z) (ids : list string) : list string :=
  match ids with
  | [] => []
  | _ :: t => (cdt_arry_prefix ++ zfill cdt_arry_width (print_Z i) ++ cdt_arry_suffix)%string :: arry_ids (i + 1) t
  end.

(* GID, CLID, NAME, GWEIGHT, values *)
Definition cdt_row : Type := string * string * string * Z * list Q.

Fixpoint cdt_rows (i : Z) (rows : list (string * list Q)) : list cdt_row :=
  match rows with
  | [] => []
  | (l, vs) :: t =>
      ((cdt_gid_prefix ++ print_Z i ++ cdt_gid_suffix)%string, (cdt_clid_prefix ++ print_Z i)%string,
       l, cdt_gweight, vs) :: cdt_rows (i + 1) t
  end.

(* fmt_cdt(sample_ids, table): header, the two fixed rows, one row per bin
   (the frame index after reading a file is 0 .. n-1) *)
Definition fmt_cdt (sample_ids : list string) (m : merged)
  : list string * (list string * list string) * list cdt_row :=
  (cdt_header ++ sample_ids,
   (cdt_header2 ++ arry_ids 0 sample_ids, cdt_header3 ++ map (fun _ => cdt_eweight) sample_ids),
   cdt_rows 0 (merged_rows m)).

(* fmt_jtv: CloneID, Name, values *)
Definition fmt_jtv (sample_ids : list string) (m : merged)
  : list string * list (string * string * list Q) :=
  (jtv_header ++ sample_ids, map (fun r => (jtv_clone, fst r, snd r)) (merged_rows m)).

(* ---------------------------------------------------------------- nexus-basic *)

(* chromosome, start, end, gene, log2, probe = chr:start+1-end *)
Definition nexus_row : Type := string * Z * Z * string * Q * string.

Definition export_nexus_basic (bins : list bin) : list nexus_row :=
  map (fun b => (b_chrom b, b_lo b, b_hi b, b_gene b, b_v b,
                 Formats.to_label (b_chrom b, b_lo b, b_hi b))) bins.

(* ---------------------------------------------------------------- nexus-ogt *)

(* a bin of the .cnr: log2 and the weight cell (None = NaN; ignored without a weight column) *)
Record obin := mkObin { o_chrom : string; o_lo : Z; o_hi : Z; o_v : Q; o_w : option Q }.

Definition qltb (a b : Q) : bool := negb (Qle_bool b a).

Definition obin_region (b : obin) : VBaf.grange := (o_chrom b, o_lo b, o_hi b).

(* `if min_weight and "weight" in cnarr: cnarr = cnarr[~(cnarr["weight"] < min_weight)]`
   (a NaN weight is not below anything) *)
Definition ogt_low (min_weight : Q) (b : obin) : bool :=
  match o_w b with Some w => qltb w min_weight | None => false end.

Definition ogt_kept (min_weight : Q) (has_weight : bool) (bins : list obin) : list obin :=
  if negb (Qeq_bool min_weight 0) && has_weight
  then filter (fun b => negb (ogt_low min_weight b)) bins
  else bins.

(* Chromosome, Position (start), Position (end), Log R Ratio, B-Allele Frequency *)
Definition ogt_row : Type := string * Z * Z * Q * Vcf.xq.

(* export_nexus_ogt(cnarr, varr, min_weight): varr.baf_by_ranges(cnarr) with its defaults
   (above_half=None, tumor_boost=False) is the C18 model; None = no bin left at all (the
   code raises TypeError in its logging call) *)
(* `out_table["B-Allele Frequency"] = np.asarray(bafs)`: one value per kept bin, by position
   (repaired in /repo 718de44: the Series used to be aligned on the bins' row labels) *)
Definition export_nexus_ogt (paired : bool) (vrows : list VBaf.lrow) (min_weight : Q) (has_weight : bool)
  (bins : list obin) : option (list ogt_row) :=
  let kept := ogt_kept min_weight has_weight bins in
  match VBaf.baf_by_ranges paired vrows (map obin_region kept) None ogt_tumor_boost with
  | Some bafs => Some (map2 (fun b f => (o_chrom b, o_lo b, o_hi b, o_v b, f)) kept bafs)
  | None => None
  end.

(* ---------------------------------------------------------------- THetA *)

(* GenomicArray.autosomes: chromosome.str.match(r"(chr)?\d+$") -- an optional "chr", then one
   or more digits up to the end of the name *)
Definition all_digits (l : list ascii) : bool :=
  match l with [] => false | _ => forallb is_digit l end.
(* re.match tries the optional group first and backtracks to the empty alternative *)
Definition is_auto_chars (l : list ascii) : bool :=
  if prefixb (chars "chr") l && all_digits (skipn 3 l) then true else all_digits l.
Definition is_auto_name (s : string) : bool := is_auto_chars (chars s).

(* autosomes(also=[]): no numerically named chromosome at all => the table itself *)
Definition theta_autosomes {A} (name : A -> string) (l : list A) : list A :=
  if existsb (fun x => is_auto_name (name x)) l then filter (fun x => is_auto_name (name x)) l else l.

(* a tumor segment: e = 2^log2 (oracle value); probes / weight are read only when the table
   has the column *)
Record tseg := mkTseg { t_chrom : string; t_lo : Z; t_hi : Z; t_e : Q; t_probes : Z; t_weight : Q }.

(* a bin of the normal / reference table: chromosome, start, end, log2 *)
Definition nbin : Type := string * Z * Z * Q.
Definition nb_region (b : nbin) : string * Z * Z := let '(c, lo, hi, _) := b in (c, lo, hi).
Definition nb_chrom (b : nbin) : string := let '(c, _, _, _) := b in c.
Definition nb_log2 (b : nbin) : Q := let '(_, _, _, v) := b in v.
Definition tseg_region (s : tseg) : string * Z * Z := (t_chrom s, t_lo s, t_hi s).

Definition qsum (l : list Q) : Q := fold_left (fun a x => Qred (a + x)) l 0%Q.
Definition qmean (l : list Q) : Q := Qred (qsum l / inject_Z (Z.of_nat (length l))).
Definition qmaxl (l : list Q) : Q := match l with [] => 0%Q | x :: t => fold_left qmax t x end.

(* [bins["log2"] for _seg, bins in normal_cn.by_ranges(tumor_segs)]: the bins' log2 per
   segment, in the order by_ranges yields the segments *)
Definition theta_bins_in (normal : list nbin) (segs : list tseg) : list (list Q) :=
  map (fun p : Ranges.trow * list Ranges.row =>
         map (fun r => nth (Z.to_nat (Ranges.r_id r)) (map nb_log2 normal) 0%Q) (snd p))
      (Ranges.ga_by_ranges (to_trows 0 (map nb_region normal)) (to_trows 0 (map tseg_region segs))
                           Ranges.QOuter true).

(* s.mean(): None = NaN (no bin) *)
Definition theta_ref_means (normal : list nbin) (segs : list tseg) : list (option Q) :=
  map (fun l => match l with [] => None | _ => Some (qmean l) end) (theta_bins_in normal segs).

(* ref_means_nbins without a normal: the nbins column *)
Definition theta_nbins (hp hw : bool) (segs : list tseg) : list Q :=
  let ws := map t_weight segs in
  if hw && existsb (fun w => qltb theta_new_weight_above w) ws then
    let d := Qred (qmaxl ws / qmean ws) in
    map (fun w => Qred (w / d)) ws
  else
    let base :=
      if hp then map (fun s => inject_Z (t_probes s)) segs
      else let sizes := map (fun s => inject_Z (t_hi s - t_lo s)) segs in
           let m := qmean sizes in map (fun z => Qred (z / m)) sizes in
    if hw then let m := qmean ws in map2 (fun b w => Qred (b * Qred (w / m))) base ws else base.

(* theta_read_counts on one element: nbins * avg_bin_width * (2**log2 * avg_depth) / read_len, rounded *)
Definition theta_value (e nb : Q) : Q :=
  Qred (Qred (Qred (nb * inject_Z theta_bin_width) * Qred (e * inject_Z theta_depth)) / inject_Z theta_read_len).
Definition theta_count (e nb : Q) : Z := round_he (theta_value e nb).

(* 2 ** 0.0 for ref_means = np.zeros(...) *)
Definition theta_neutral_ratio : Q := 1.

Fixpoint index_from (c : string) (names : list string) (i : Z) : Z :=
  match names with
  | [] => i
  | x :: t => if String.eqb x c then i else index_from c t (i + 1)
  end.

(* f"start_{row.chrm}_{row.start}:end_{row.chrm}_{row.end}" *)
Definition theta_id (chrm lo hi : Z) : string :=
  match theta_id_parts with
  | [a; b; c; d] => (a ++ print_Z chrm ++ b ++ print_Z lo ++ c ++ print_Z chrm ++ d ++ print_Z hi)%string
  | _ => EmptyString
  end.

(* #ID, chrm, start, end, tumorCount, normalCount *)
Definition theta_row : Type := string * Z * Z * Z * Z * Z.

Definition theta_rows (segs : list tseg) (tc nc : list Z) : list theta_row :=
  let names := Formats.distinct_names [] (map t_chrom segs) in
  map3 (fun s t n => let ch := index_from (t_chrom s) names theta_first_chrm in
                     (theta_id ch (t_lo s) (t_hi s), ch, t_lo s, t_hi s, t, n)) segs tc nc.

Inductive theta_result :=
| ThetaEmpty                       (* `if not tumor_segs`: an empty frame *)
| ThetaAttr                        (* AttributeError: bin counts as an ndarray have no .fillna *)
| ThetaOk (rows : list theta_row).

(* export_theta(tumor_segs, normal_cn); hp / hw: the segment table has a probes / weight
   column; `en`: 2 ** ref_mean per kept segment (oracle values, read only with a normal) *)
Definition export_theta (hp hw : bool) (rows : list tseg) (normal : option (list nbin)) (en : list Q)
  : theta_result :=
  match rows with
  | [] => ThetaEmpty
  | _ =>
      let segs := theta_autosomes t_chrom rows in
      match normal with
      | Some ((_ :: _) as nb) =>
          if negb hp then ThetaAttr else
          let nb' := theta_autosomes nb_chrom nb in
          let nbins := map (fun s => inject_Z (t_probes s)) segs in
          let tc := map2 (fun s n => theta_count (t_e s) n) segs nbins in
          let ncnt := map3 (fun (m : option Q) e n => match m with Some _ => theta_count e n | None => theta_nan_count end)
                           (theta_ref_means nb' segs) en nbins in
          ThetaOk (theta_rows segs tc ncnt)
      | _ =>
          let nbins := theta_nbins hp hw segs in
          ThetaOk (theta_rows segs (map2 (fun s n => theta_count (t_e s) n) segs nbins)
                              (map (theta_count theta_neutral_ratio) nbins))
      end
  end.
