(* Model of skgenome's interval arithmetic on ONE chromosome's rows
   (skgenome/merge.py, subtract.py, intersect.py (trim), subdivide.py and
   GenomicArray.resize_ranges / total_range_size in gary.py), as the code is now.

   A table is `list row`, row = (start, end, payload).  The payload stands for
   "the other fields" of a row; `comb first ps` is what the column combiners make
   of the payloads `ps` of the rows being combined, for a group whose first row
   has payload `first` (columns without a combiner keep the first row's value).
   Cross-chromosome grouping / ordering is not modelled here (property C08 owns
   the chromosome sort key); the harness applies these functions per chromosome. *)
From CNV Require Import Base.Prelude Model.IvRow Gen.IvDefaults.

Section Intervals.
Context {A : Type} (comb : A -> list A -> A).

Notation row := (@row A).

(* ---- _nonoverlapping_groups ------------------------------------------------
   gap_sizes  = start[1:] - end.cummax()[:-1]      (running max over the whole table)
   group_keys = r_[False, gap_sizes > -bp].cumsum()
   groups_from bp cmax rest = (rows that still join the current group, later groups) *)
Fixpoint groups_from (bp cmax : Z) (rest : list row) : list row * list (list row) :=
  match rest with
  | [] => ([], [])
  | r :: t =>
      let '(g, gs) := groups_from bp (Z.max cmax (hi r)) t in
      if - bp <? lo r - cmax then ([], (r :: g) :: gs) else (r :: g, gs)
  end.

Definition groups (bp : Z) (rows : list row) : list (list row) :=
  match rows with
  | [] => []
  | r :: t => let '(g, gs) := groups_from bp (hi r) t in (r :: g) :: gs
  end.

(* (gap_sizes > -bp).all(): the whole-table fast path of merge *)
Fixpoint all_gaps_from (bp cmax : Z) (rest : list row) : bool :=
  match rest with
  | [] => true
  | r :: t => (- bp <? lo r - cmax) && all_gaps_from bp (Z.max cmax (hi r)) t
  end.

Definition all_gaps (bp : Z) (t : list row) : bool :=
  match t with [] => true | r :: t' => all_gaps_from bp (hi r) t' end.

(* the "end": max combiner over a group *)
Fixpoint maxhi (m : Z) (g : list row) : Z :=
  match g with [] => m | r :: t => Z.max (hi r) (maxhi m t) end.

(* ---- merge -----------------------------------------------------------------
   _squash_tuples: a single row is returned as it is; otherwise the first row
   with start = first start, end = max end, other fields combined *)
Definition squash (grp : list row) : list row :=
  match grp with
  | [] => []
  | [r] => [r]
  | r :: g => [(lo r, maxhi (hi r) g, comb (pay r) (map pay grp))]
  end.

Definition merge_slow (bp : Z) (t : list row) : list row :=
  flat_map squash (groups bp (sort_rows t)).

(* The fast path of merge() is decided on the WHOLE table (all chromosomes, in
   table order): `gfast` is its outcome, `t` one chromosome's rows. *)
Definition merge_sel (bp : Z) (gfast : bool) (t : list row) : list row :=
  match t with
  | [] => []
  | _ => if gfast then t else merge_slow bp t
  end.

(* a table with a single chromosome *)
Definition merge (bp : Z) (t : list row) : list row := merge_sel bp (all_gaps bp t) t.

(* ---- flatten ---------------------------------------------------------------
   fast path: (start[1:] >= end.cummax()[:-1]).all() *)
Fixpoint no_overlap_from (cmax : Z) (rest : list row) : bool :=
  match rest with
  | [] => true
  | r :: t => (cmax <=? lo r) && no_overlap_from (Z.max cmax (hi r)) t
  end.

Definition no_overlap (t : list row) : bool :=
  match t with [] => true | r :: t' => no_overlap_from (hi r) t' end.

(* sorted(set(...)) on integers *)
Fixpoint insert_uniq (x : Z) (l : list Z) : list Z :=
  match l with
  | [] => [x]
  | y :: t => if x <? y then x :: y :: t else if x =? y then y :: t else y :: insert_uniq x t
  end.

Definition sort_uniq (l : list Z) : list Z := fold_right insert_uniq [] l.

Definition breaks (g : list row) : list Z :=
  sort_uniq (flat_map (fun r => [lo r; hi r]) g).

(* zip(breaks[:-1], breaks[1:]) *)
Fixpoint pairs (l : list Z) : list (Z * Z) :=
  match l with
  | a :: ((b :: _) as t) => (a, b) :: pairs t
  | _ => []
  end.

(* rows_in_play = [row for row in rows if row.start <= bp_start and row.end >= bp_end] *)
Definition in_play (g : list row) (s e : Z) : list row :=
  filter (fun r => (lo r <=? s) && (e <=? hi r)) g.

Definition flatten_group (g : list row) : list row :=
  match g with
  | [] => []
  | [r] => [r]
  | f :: _ =>
      map (fun se => (fst se, snd se, comb (pay f) (map pay (in_play g (fst se) (snd se)))))
          (pairs (breaks g))
  end.

Definition flatten_slow (t : list row) : list row :=
  flat_map flatten_group (groups flatten_group_bp (sort_rows t)).

(* as for merge, the fast path is decided on the whole table *)
Definition flatten_sel (gfast : bool) (t : list row) : list row :=
  match t with
  | [] => []
  | _ => if gfast then t else flatten_slow t
  end.

Definition flatten (t : list row) : list row := flatten_sel (no_overlap t) t.

(* ---- subtract --------------------------------------------------------------
   _subtraction for one keeper row and its non-empty list of excluded rows
   (payload type of the excluded table is irrelevant) *)
Section Subtract.
Context {B : Type}.

Definition zip_pieces (p : A) (starts ends : list Z) : list row :=
  map (fun se => (fst se, snd se, p))
      (filter (fun se => fst se <? snd se) (combine starts ends)).

Definition subtract_row (k : row) (ex : list (@IvRow.row B)) : list row :=
  match ex with
  | [] => [k]
  | _ =>
      let ex_starts := map lo ex in
      let ex_ends := cummax (map hi ex) in
      let keep_left := lo k <? hd 0 ex_starts in
      let keep_right := last ex_ends 0 <? hi k in
      if keep_left && keep_right then
        zip_pieces (pay k) (lo k :: ex_ends) (ex_starts ++ [hi k])
      else if keep_left then
        zip_pieces (pay k) (lo k :: removelast ex_ends) ex_starts
      else if keep_right then
        zip_pieces (pay k) ex_ends (tl ex_starts ++ [hi k])
      else if 1 <? Z.of_nat (length ex) then
        zip_pieces (pay k) (removelast ex_ends) (tl ex_starts)
      else []
  end.

(* by_ranges(other, table, "outer", keep_empty=True) + _subtraction; an empty
   `other` (or a chromosome absent from it) leaves every keeper as it is, which
   is also what the empty filter gives *)
Definition subtract (a : list row) (b : list (@IvRow.row B)) : list row :=
  flat_map (fun k => subtract_row k (filter (overlaps (lo k) (hi k)) b)) a.

(* ---- intersection(mode="trim") ---------------------------------------------
   iter_ranges: `if start_val:` / `if end_val:` are truthiness tests, so a
   bound equal to 0 does not clip *)
Definition trim_row (qs qe : Z) (r : row) : row :=
  ((if qs =? 0 then lo r else Z.max (lo r) qs),
   (if qe =? 0 then hi r else Z.min (hi r) qe),
   pay r).

(* one chunk per row of `other`, in its order; empty chunks are skipped (keep_empty=False) *)
Definition intersect_chunks (a : list row) (b : list (@IvRow.row B)) : list (list row) :=
  filter (fun c => negb (Nat.eqb (length c) 0))
         (map (fun q => map (trim_row (lo q) (hi q)) (filter (overlaps (lo q) (hi q)) a)) b).

Definition intersect_trim (a : list row) (b : list (@IvRow.row B)) : list row :=
  concat (intersect_chunks a b).

(* whole table = the chromosomes shared by both tables, each a pair (a_c, b_c);
   when there is no chunk at all the result is the empty table (`if not chunks`),
   which is also what the concatenation of no chunks gives here *)
Definition intersect_trim_table (chroms : list (list row * list (@IvRow.row B)))
  : list (list row) :=
  map (fun ab => intersect_trim (fst ab) (snd ab)) chroms.

End Subtract.

(* ---- subdivide -------------------------------------------------------------
   int(round(span / avg_size)) or 1, Python round = half to even, avg_size > 0 *)
Definition round_div (s a : Z) : Z :=
  let q := s / a in
  let r := s mod a in
  if 2 * r <? a then q
  else if a <? 2 * r then q + 1
  else if Z.even q then q else q + 1.

Definition nbins (avg span : Z) : Z :=
  let n := round_div span avg in if n =? 0 then 1 else n.

(* for i in range(1, nbins): bin_end = row.start + int(i * bin_size) ...
   `cut i` is the oracle for int(i * (span / nbins)) (DESIGN section 2) *)
Fixpoint bins_from (cut : Z -> Z) (start0 bin_start i : Z) (k : nat) (e : Z) (p : A) : list row :=
  match k with
  | O => [(bin_start, e, p)]
  | S k' =>
      let bin_end := start0 + cut i in
      (bin_start, bin_end, p) :: bins_from cut start0 bin_end (i + 1) k' e p
  end.

Definition split_row (avg mn : Z) (cut : Z -> Z -> Z -> Z) (r : row) : list row :=
  let span := hi r - lo r in
  if span <? mn then []
  else
    let n := nbins avg span in
    if n =? 1 then [r]
    else bins_from (cut span n) (lo r) (lo r) 1 (Z.to_nat (n - 1)) (hi r) (pay r).

Definition subdivide_sel (avg mn : Z) (cut : Z -> Z -> Z -> Z) (gfast : bool) (t : list row) : list row :=
  flat_map (split_row avg mn cut) (merge_sel merge_bp_default gfast t).

Definition subdivide (avg mn : Z) (cut : Z -> Z -> Z -> Z) (t : list row) : list row :=
  subdivide_sel avg mn cut (all_gaps merge_bp_default t) t.

(* ---- resize_ranges ---------------------------------------------------------
   clip(lower=0[, upper=chromosome size]) of start - bp and end + bp; rows of
   size <= 0 are dropped only when bp < 0 *)
Definition clip (size : option Z) (x : Z) : Z :=
  let y := Z.max x resize_lower in
  match size with Some s => Z.min y s | None => y end.

Definition resize (bp : Z) (size : option Z) (t : list row) : list row :=
  let t' := map (fun r => (clip size (lo r - bp), clip size (hi r + bp), pay r)) t in
  if bp <? 0 then filter (fun r => 0 <? hi r - lo r) t' else t'.

(* ---- total_range_size ------------------------------------------------------
   merge(self.data, bp=1); regions.end.sum() - regions.start.sum() *)
Definition total_sel (gfast : bool) (t : list row) : Z :=
  let m := merge_sel total_size_bp gfast t in
  sumZ (map hi m) - sumZ (map lo m).

Definition total_range_size (t : list row) : Z := total_sel (all_gaps total_size_bp t) t.

End Intervals.

(* ==== GENOME LEVEL ===========================================================
   A table over several chromosomes as the public methods of GenomicArray see it.
   A genome row is a row whose payload starts with the chromosome name:
   (start, end, (chromosome, other fields)); a genome table is `list (g_row A)` in
   table order.  The per-chromosome functions above are applied to
   `filter (g_on c) t`, i.e. literally to a selection `filter sel whole` of the whole
   table, which is the shape the per-chromosome theorems (Props/C06.v) speak about.

   What the code does across chromosomes (skgenome/merge.py, subtract.py,
   intersect.by_shared_chroms, gary.py):
   * merge / flatten: the fast path is decided on the WHOLE table in table order
     (coordinates of different chromosomes are compared with one another); the slow
     path sorts by (chromosome NAME, start, end), groups by chromosome in order of
     first appearance (= lexicographic order of the names after that sort), works
     per chromosome, concatenates, and re-orders the result by a STABLE sort on
     sorter_chrom(chromosome);
   * subtract: `other` empty -> the table itself; otherwise the chromosomes of the
     table in order of first appearance (groupby(sort=False)), each with all its
     rows, each row cut by the overlapping rows of `other` on that chromosome; no
     final sort;
   * intersection(mode="trim"): the chromosomes of `other` in order of first
     appearance, each query row of `other` in turn; a chromosome present in only one
     table contributes nothing; no final sort;
   * subdivide: row by row on merge(table); resize_ranges: row by row, the upper clip
     looked up by chromosome name; total_range_size: on merge(table, bp=1).
   No proofs here (Proofs/IvGenome.v). *)
From CNV Require Import Model.Chromsort Model.IvCombine.

Definition g_row (A : Type) : Type := @row (string * A).
Definition g_chrom {A} (r : g_row A) : string := fst (pay r).
Definition g_on {A} (c : string) (r : g_row A) : bool := String.eqb (g_chrom r) c.

(* chromosome names in order of first appearance: groupby(sort=False) / unique() *)
Definition g_chroms {A} (t : list (g_row A)) : list string := uniq (map g_chrom t).

(* Python str <= str (by code point; bytes for ASCII / UTF-8) and sorter_chrom order *)
Definition g_str_leb (a b : string) : bool :=
  match String.compare a b with Gt => false | _ => true end.
Definition g_key_leb (a b : string) : bool := ckey_leb (chrom_key a) (chrom_key b).

(* order of the chromosome blocks after merge()/flatten()'s slow path *)
Definition g_order {A} (t : list (g_row A)) : list string :=
  stable_sort g_key_leb (stable_sort g_str_leb (g_chroms t)).

Section Genome.
Context {A : Type} (comb : A -> list A -> A).
Notation grow := (g_row A).

(* get_combiners: "chromosome" -> first_of; the other fields through `comb` *)
Definition g_comb (first : string * A) (ps : list (string * A)) : string * A :=
  (fst first, comb (snd first) (map snd ps)).

Definition g_merge (bp : Z) (t : list grow) : list grow :=
  match t with
  | [] => []
  | _ => if all_gaps bp t then t
         else flat_map (fun c => merge_slow g_comb bp (filter (g_on c) t)) (g_order t)
  end.

Definition g_flatten (t : list grow) : list grow :=
  match t with
  | [] => []
  | _ => if no_overlap t then t
         else flat_map (fun c => flatten_slow g_comb (filter (g_on c) t)) (g_order t)
  end.

(* subtract(table, other): `if not len(other): return table` *)
Definition g_subtract {B} (a : list grow) (b : list (g_row B)) : list grow :=
  match b with
  | [] => a
  | _ => flat_map (fun c => subtract (filter (g_on c) a) (filter (g_on c) b)) (g_chroms a)
  end.

(* intersection(other, mode="trim") *)
Definition g_intersect {B} (a : list grow) (b : list (g_row B)) : list grow :=
  flat_map (fun c => intersect_trim (filter (g_on c) a) (filter (g_on c) b)) (g_chroms b).

Definition g_subdivide (avg mn : Z) (cut : Z -> Z -> Z -> Z) (t : list grow) : list grow :=
  flat_map (split_row avg mn cut) (g_merge merge_bp_default t).

(* chrom_sizes: None (or an empty mapping) = no upper limit; a chromosome the mapping
   lacks gets a NaN limit, which pandas' clip ignores *)
Definition g_size (sizes : option (string -> option Z)) (c : string) : option Z :=
  match sizes with Some f => f c | None => None end.

Definition g_resize (bp : Z) (sizes : option (string -> option Z)) (t : list grow) : list grow :=
  let t' := map (fun r => let s := g_size sizes (g_chrom r) in
                          (clip s (lo r - bp), clip s (hi r + bp), pay r)) t in
  if bp <? 0 then filter (fun r => 0 <? hi r - lo r) t' else t'.

Definition g_total (t : list grow) : Z :=
  let m := g_merge total_size_bp t in
  sumZ (map hi m) - sumZ (map lo m).

(* GenomicArray.sort on a genome table: stable sort on (sorter_chrom, start, end) *)
Definition g_proj (r : grow) : string * Z * Z := (g_chrom r, lo r, hi r).
Definition g_sort (t : list grow) : list grow := sort_regions g_proj t.

End Genome.
