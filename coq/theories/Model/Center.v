(* Model of CopyNumArray.center_all and what it calls (cnvlib/cnary.py, skgenome/gary.py,
   cnvlib/descriptives.py), at the granularity C15 observes: a table of bins in, a table of
   bins out.  Executable, total; constants come from Gen/CenterDefaults.v.  No proofs here.

   NaN does not exist in this model: the harness feeds NaN-free tables (pd.Series.median /
   mean skip NaN, the decorators of descriptives.py strip it; no C15 clause speaks of it). *)
From CNV Require Import Base.Prelude Base.Str Base.QNum Gen.CenterDefaults.
Local Open Scope Q_scope.

(* ---- a bin: the columns the property can see -------------------------------- *)
Record bin := mkBin {
  b_chrom : string;
  b_start : Z;
  b_end : Z;
  b_gene : string;
  b_log2 : Q;
  b_depth : option Q;      (* None: the table has no depth column *)
  b_weight : option Q      (* None: the table has no weight column *)
}.

Definition set_log2 (b : bin) (v : Q) : bin :=
  mkBin (b_chrom b) (b_start b) (b_end b) (b_gene b) v (b_depth b) (b_weight b).
Definition add_log2 (c : Q) (b : bin) : bin := set_log2 b (qadd (b_log2 b) c).

(* ---- chromosome names ------------------------------------------------------- *)
(* gary.autosomes: self.chromosome.str.match(r"(chr)?\d+$"): an optional "chr", then one or
   more digits up to the end of the name (re.match anchors at the start). *)
Definition all_digits (l : list ascii) : bool :=
  match l with [] => false | _ => forallb is_digit l end.
Definition is_auto_chars (l : list ascii) : bool :=
  match l with
  | "c"%char :: "h"%char :: "r"%char :: rest => all_digits rest
  | _ => all_digits l
  end.
Definition is_auto_name (s : string) : bool := is_auto_chars (chars s).

(* chr_x_label / chr_y_label: derived from the first row's naming style; "" on an empty table *)
Definition x_label (t : list bin) : string :=
  match t with
  | [] => ""%string
  | b :: _ => if str_prefix "chr" (b_chrom b) then "chrX"%string else "X"%string
  end.
Definition y_label (t : list bin) : string :=
  match t with
  | [] => ""%string
  | _ :: _ => if str_prefix "chr" (x_label t) then "chrY"%string else "Y"%string
  end.

(* ---- pseudo-autosomal regions ----------------------------------------------- *)
Definition par4 := (Z * Z * Z * Z)%type.          (* PAR1 start, PAR1 end, PAR2 start, PAR2 end *)
Record parb := mkPar { par_x : par4; par_y : par4 }.

Fixpoint par_lookup (tbl : list (string * string * Z * Z)) (build key : string) : option (Z * Z) :=
  match tbl with
  | [] => None
  | (b, k, lo, hi) :: t => if String.eqb b build && String.eqb k key then Some (lo, hi) else par_lookup t build key
  end.

(* genome_build.lower(); assert genome_build in SUPPORTED_GENOMES_FOR_PAR_HANDLING (None = assertion) *)
Definition resolve_build (build : string) : option parb :=
  let b := unchars (lower (chars build)) in
  match par_lookup par_table b "PAR1X", par_lookup par_table b "PAR2X",
        par_lookup par_table b "PAR1Y", par_lookup par_table b "PAR2Y" with
  | Some (a1, a2), Some (a3, a4), Some (c1, c2), Some (c3, c4) =>
      Some (mkPar (a1, a2, a3, a4) (c1, c2, c3, c4))
  | _, _, _, _ => None
  end.

Definition in_par (p : par4) (b : bin) : bool :=
  let '(s1, e1, s2, e2) := p in
  (((s1 <=? b_start b)%Z && (b_end b <=? e1)%Z) || ((s2 <=? b_start b)%Z && (b_end b <=? e2)%Z)).

(* parx_filter / pary_filter evaluated on table [t] (the label comes from t's first row) *)
Definition parx_filter (t : list bin) (p : parb) (b : bin) : bool :=
  String.eqb (b_chrom b) (x_label t) && in_par (par_x p) b.
Definition pary_filter (t : list bin) (p : parb) (b : bin) : bool :=
  String.eqb (b_chrom b) (y_label t) && in_par (par_y p) b.

Definition chr_x_filter (t : list bin) (build : option parb) (b : bin) : bool :=
  String.eqb (b_chrom b) (x_label t) &&
  match build with Some p => negb (parx_filter t p b) | None => true end.
Definition chr_y_filter (t : list bin) (build : option parb) (b : bin) : bool :=
  String.eqb (b_chrom b) (y_label t) &&
  match build with Some p => negb (pary_filter t p b) | None => true end.

(* ---- autosomes (cnary override + gary) -------------------------------------- *)
Definition is_auto_bin (b : bin) : bool := is_auto_name (b_chrom b).
Definition auto_sel (t : list bin) (build : option parb) (b : bin) : bool :=
  is_auto_bin b || match build with Some p => parx_filter t p b | None => false end.
(* no numerically named chromosome at all => the table itself (the `also` mask is ignored too) *)
Definition autosomes (t : list bin) (build : option parb) : list bin :=
  if existsb is_auto_bin t then filter (auto_sel t build) t else t.

(* ---- drop_low_coverage ------------------------------------------------------ *)
Definition min_cvg : Q := qsub null_log2_coverage min_ref_coverage.
Definition is_low (b : bin) : bool :=
  qlt_b (b_log2 b) min_cvg || match b_depth b with Some d => qeq_b d 0 | None => false end.
Definition drop_low (t : list bin) : list bin := filter (fun b => negb (is_low b)) t.

(* ---- by_chromosome: groupby(sort=False): groups in order of first appearance,
        rows of one name collected even when not contiguous -------------------- *)
Fixpoint group_insert (k : string) (v : Q) (gs : list (string * list Q)) : list (string * list Q) :=
  match gs with
  | [] => [(k, [v])]
  | (k', vs) :: rest => if String.eqb k k' then (k', vs ++ [v]) :: rest else (k', vs) :: group_insert k v rest
  end.
Definition groups_of (t : list bin) : list (string * list Q) :=
  fold_left (fun gs b => group_insert (b_chrom b) (b_log2 b) gs) t [].
Definition group_log2 (t : list bin) : list (list Q) := map snd (groups_of t).

(* ---- estimators ------------------------------------------------------------- *)
(* descriptives.biweight_location: one iteration, written over the deviations d = a - initial;
   None = "insufficient variation" (weightsum == 0) *)
Definition bw_den (d : list Q) : Q := qmax2 (qmul biweight_c (median (map qabs d))) biweight_epsilon.
Definition bw_u (den x : Q) : Q := qdiv x den.
Definition bw_keep (den x : Q) : bool := qlt_b (qabs (bw_u den x)) 1.
Definition bw_wt (den x : Q) : Q := qsq (qsub 1 (qsq (bw_u den x))).
Definition biloc_core (d : list Q) : option Q :=
  let den := bw_den d in
  let kept := filter (bw_keep den) d in
  let weightsum := qsum (map (bw_wt den) kept) in
  if qeq_b weightsum 0 then None
  else Some (qdiv (qsum (map (fun x => qmul x (bw_wt den x)) kept)) weightsum).
Definition biloc_iter (a : list Q) (initial : Q) : Q :=
  match biloc_core (map (fun x => qsub x initial) a) with
  | None => initial
  | Some inc => qadd initial inc
  end.
(* for _i in range(max_iter): result = iter(initial); if |result - initial| <= eps: break; initial = result *)
Fixpoint biloc_loop (n : nat) (a : list Q) (initial : Q) : Q :=
  match n with
  | O => initial
  | S k => let r := biloc_iter a initial in
           if qle_b (qabs (qsub r initial)) biweight_epsilon then r else biloc_loop k a r
  end.
Definition biweight (a : list Q) : Q :=
  match a with
  | [] => 0                       (* NaN in the code; never reached from center_all *)
  | [x] => x
  | _ => biloc_loop (Z.to_nat biweight_max_iter) a (median a)
  end.

(* descriptives.modal_location: the KDE argmax index is an oracle on the sorted values *)
Definition mode_of (kde : list Q -> nat) (a : list Q) : Q :=
  match a with
  | [] => 0
  | [x] => x
  | _ => let s := qsort a in
         if qeq_b (nthq 0 s) (nthq (length s - 1) s) then nthq 0 s else nthq (kde s) s
  end.

Inductive estimator := EMedian | EMean | EBiweight | EMode.
Definition est_of_name (s : string) : option estimator :=
  if String.eqb s "median" then Some EMedian else
  if String.eqb s "mean" then Some EMean else
  if String.eqb s "biweight" then Some EBiweight else
  if String.eqb s "mode" then Some EMode else None.
Definition est_fun (kde : list Q -> nat) (e : estimator) : list Q -> Q :=
  match e with
  | EMedian => median
  | EMean => qmean
  | EBiweight => biweight
  | EMode => mode_of kde
  end.

(* ---- center_all ------------------------------------------------------------- *)
(* the bins the estimate is taken over *)
Definition center_selection (skip_low : bool) (build : option parb) (t : list bin) : list bin :=
  autosomes (if skip_low then drop_low t else t) build.
(* the estimate over a selection: two-level (per chromosome, then across) or flat *)
Definition center_stat (est : list Q -> Q) (by_chrom : bool) (sel : list bin) : Q :=
  if by_chrom then est (map est (group_log2 sel)) else est (map b_log2 sel).
(* None: nothing selected, the table is left alone *)
Definition center_shift (est : list Q -> Q) (by_chrom skip_low : bool) (build : option parb)
  (t : list bin) : option Q :=
  match center_selection skip_low build t with
  | [] => None
  | sel => Some (qneg (center_stat est by_chrom sel))
  end.
Definition center_all (est : list Q -> Q) (by_chrom skip_low : bool) (build : option parb)
  (t : list bin) : list bin :=
  match center_shift est by_chrom skip_low build t with
  | None => t
  | Some s => map (add_log2 s) t
  end.
