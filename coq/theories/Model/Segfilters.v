(* Model of cnvlib/segfilters.py (squash_by_groups, enumerate_changes,
   squash_region, the four level functions ampdel / ci / cn / sem), of the
   filter handling of cnvlib/call.py:do_call, and a local executable mirror of
   cnvlib/descriptives.py:weighted_median (with its on_weighted_array wrapper)
   and of np.median, as the code is NOW (/repo 6a8e569: levels aligned by
   position, a level change wherever consecutive levels differ, missing is a
   level of its own; d9d607e / 4f02c07: relative tie tolerance of the weighted
   median, applied in the search along the cumulative weights as well).  The
   last part models do_call as a whole: the filter blocks around the calling
   step of the C01 / C02 models (Model/Call.v, Model/Threshold.v, Model/Baf.v).

   A segment table is a list of rows; a missing cell (NaN) is None.  A column
   that is absent from the table is represented by None in every row (the
   grouping and every aggregate then behave as the code does without the
   column).  The table's pandas index plays no role any more (checked by the
   harness with non-default indexes).  No proofs in this file. *)
From Coq Require Import QArith.Qabs.
From CNV Require Import Base.Prelude Base.Str Gen.SegfilterDefaults.
From CNV Require Base.QNum Gen.DescDefaults Model.Descriptives.     (* qualified use only *)
From CNV Require Model.Call Model.Threshold Model.Baf.               (* C01 / C02 models of the calling step *)

Record seg := mkSeg {
  chrom : string; lo : Z; hi : Z; gene : string;
  log2 : Q; probes : Z; weight : Q;
  depth : option Q; baf : option Q;
  cn : Q; cn1 : option Q; cn2 : option Q;
  pbt : option Q;                                  (* p_bintest *)
  ci_lo : option Q; ci_hi : option Q; sem : option Q }.

(* ---------------------------------------------------------------- numerics *)

Definition Qltb (a b : Q) : bool := negb (Qle_bool b a).

Definition optQ_eqb (a b : option Q) : bool :=
  match a, b with
  | Some x, Some y => Qeq_bool x y
  | None, None => true
  | _, _ => false
  end.

Fixpoint sumQ (l : list Q) : Q :=
  match l with [] => 0%Q | x :: t => Qred (x + sumQ t) end.

Fixpoint dotQ (ws xs : list Q) : Q :=
  match ws, xs with
  | w :: ws', x :: xs' => Qred (w * x + dotQ ws' xs')
  | _, _ => 0%Q
  end.

Definition Qlen {A} (l : list A) : Q := inject_Z (Z.of_nat (length l)).

(* np.average(x, weights=w) if w.sum() > 0 else np.mean(x) *)
Definition wmean (ws xs : list Q) : Q :=
  let W := sumQ ws in
  if Qltb region_weight_min W then Qred (dotQ ws xs / W) else Qred (sumQ xs / Qlen xs).

Fixpoint filter_some {A} (l : list (option A)) : list A :=
  match l with
  | [] => []
  | Some a :: t => a :: filter_some t
  | None :: t => filter_some t
  end.

(* the same on a column with missing cells: np.average gives NaN as soon as one
   cell is NaN, whereas np.mean of a pandas column skips the missing cells (NaN
   when nothing is left) *)
Definition wmean_opt (ws : list Q) (xs : list (option Q)) : option Q :=
  if Qltb region_weight_min (sumQ ws) then
    match all_some xs with Some l => Some (wmean ws l) | None => None end
  else
    match filter_some xs with
    | [] => None
    | l => Some (Qred (sumQ l / Qlen l))
    end.

Definition mean2 (a b : Q) : Q := Qred ((a + b) / 2).

(* descriptives.weighted_median on the arranged pairs, as the code is now
   (4f02c07: searchsorted(midpoint - tolerance), relative tolerance).  The pieces
   are those of C19's model (Model/Descriptives.v: psort, argmax_from, wmed_tol,
   and the generated WMEDIAN_HALF / WMEDIAN_TOL_EPS); the walk along the
   cumulative weights is Descriptives.wmed_walk made total: where the code would
   run off the end of the array (only possible with a negative total weight) it
   returns the last value instead of C19's 0.  Proofs/SegfiltersLib.v proves the
   two equal whenever the total weight is non-negative. *)
Fixpoint wmed_walk_d (mid tol acc : Q) (ps : list (Q * Q)) (d : Q) : Q :=
  match ps with
  | [] => d
  | (v, w) :: rest =>
      let c := QNum.qadd acc w in
      if QNum.qle_b (QNum.qsub mid tol) c then
        match rest with
        | (v2, _) :: _ =>
            if QNum.qle_b (QNum.qabs (QNum.qsub c mid)) tol then QNum.qdiv (QNum.qadd v v2) 2 else v
        | [] => v
        end
      else wmed_walk_d mid tol c rest v
  end.

Definition wmedian_sorted (ps : list (Q * Q)) : Q :=
  let total := QNum.qsum (map snd ps) in
  let mid := QNum.qmul DescDefaults.WMEDIAN_HALF total in
  if existsb (fun p => QNum.qlt_b mid (snd p)) ps then
    match ps with [] => 0%Q | p :: t => fst (Descriptives.argmax_from p t) end
  else wmed_walk_d mid (Descriptives.wmed_tol ps) 0 ps (hd 0%Q (map fst ps)).

(* on_weighted_array: cells missing in `a` are dropped from both arrays; nothing
   left -> NaN; a single value -> that value *)
Fixpoint drop_none (l : list (option Q * Q)) : list (Q * Q) :=
  match l with
  | [] => []
  | (Some a, w) :: t => (a, w) :: drop_none t
  | (None, _) :: t => drop_none t
  end.

Definition wmedian_pairs (ps : list (Q * Q)) : option Q :=
  match ps with
  | [] => None
  | [(a, _)] => Some a
  | _ => Some (wmedian_sorted (Descriptives.psort ps))
  end.

Definition wmedian_opt (vals : list (option Q)) (ws : list Q) : option Q :=
  wmedian_pairs (drop_none (combine vals ws)).

Definition wmedian (vals ws : list Q) : Q :=
  match wmedian_pairs (combine vals ws) with Some m => m | None => 0%Q end.

(* np.median of a non-empty list: the shared definition of Base/QNum.v *)
Definition median (l : list Q) : Q := QNum.median l.

Definition median_opt (l : list (option Q)) : option Q :=
  match all_some l with
  | Some (x :: t) => Some (median (x :: t))
  | _ => None
  end.

(* Series.max() skipping NaN; NaN when nothing is left *)
Definition omax (a b : option Q) : option Q :=
  match a, b with
  | Some x, Some y => Some (if Qle_bool x y then y else x)
  | Some x, None => Some x
  | None, _ => b
  end.

(* ------------------------------------------------------------ strings/keys *)

(* Series.drop_duplicates() / unique(): distinct values in first-occurrence order *)
Fixpoint uniq_str (l : list string) : list string :=
  match l with
  | [] => []
  | x :: t => x :: filter (fun y => negb (String.eqb x y)) (uniq_str t)
  end.

Fixpoint index_of (s : string) (l : list string) : Z :=
  match l with
  | [] => 0
  | x :: t => if String.eqb s x then 0 else 1 + index_of s t
  end.

(* enumerate_changes: count of positions (after the first) whose level differs
   from the previous one; two consecutive missing values do not differ, a
   missing and a present value do *)
Fixpoint enum_from (n : Z) (prev : option Q) (l : list (option Q)) : list Z :=
  match l with
  | [] => []
  | c :: t => let n' := if optQ_eqb prev c then n else n + 1 in n' :: enum_from n' c t
  end.
Definition enumerate_changes (l : list (option Q)) : list Z :=
  match l with [] => [] | c :: t => 0 :: enum_from 0 c t end.

Definition key := (Z * Z * Z)%type.
Definition key_eqb (a b : key) : bool :=
  let '(a1, a2, a3) := a in let '(b1, b2, b3) := b in
  (a1 =? b1) && (a2 =? b2) && (a3 =? b3).

(* (_group, _g1, _g2) per row; _group = change count of the level + chromosome ordinal *)
Fixpoint mk_keys (g o g1 g2 : list Z) : list key :=
  match g, o, g1, g2 with
  | a :: g', b :: o', c :: g1', d :: g2' => (a + b, c, d) :: mk_keys g' o' g1' g2'
  | _, _, _, _ => []
  end.

(* pandas groupby(keys, sort=False): rows with equal key form one group, adjacent
   or not; groups come in order of first occurrence, rows keep their order *)
Fixpoint lookup_group {A} (k : key) (gs : list (key * list A)) : list A :=
  match gs with
  | [] => []
  | (k', g) :: t => if key_eqb k k' then g else lookup_group k t
  end.
Fixpoint remove_group {A} (k : key) (gs : list (key * list A)) : list (key * list A) :=
  match gs with
  | [] => []
  | (k', g) :: t => if key_eqb k k' then t else (k', g) :: remove_group k t
  end.
Fixpoint group_by_key {A} (l : list (key * A)) : list (key * list A) :=
  match l with
  | [] => []
  | (k, a) :: t =>
      let gs := group_by_key t in (k, a :: lookup_group k gs) :: remove_group k gs
  end.

(* ------------------------------------------------------------ squash_region *)

Definition join_genes (l : list string) : string := String.concat "," (uniq_str l).

Definition dummy_seg : seg :=
  mkSeg "" 0 0 "" 0 0 0 None None 0 None None None None None None.

Definition squash_region (r : list seg) : seg :=
  match r with
  | [] => dummy_seg
  | s0 :: _ =>
      let ws := map weight r in
      let pos := Qltb region_weight_min (sumQ ws) in
      let cn_out := if pos then wmedian (map cn r) ws else median (map cn r) in
      let cn1_out := if pos then wmedian_opt (map cn1 r) ws else median_opt (map cn1 r) in
      mkSeg (chrom s0) (lo s0) (hi (last r s0))
        (join_genes (map gene r))
        (wmean ws (map log2 r))
        (sumZ (map probes r))
        (sumQ ws)
        (wmean_opt ws (map depth r))
        (wmean_opt ws (map baf r))
        cn_out cn1_out
        (match cn1_out with Some c1 => Some (Qred (cn_out - c1)) | None => None end)
        (fold_right omax None (map pbt r))
        None None None                     (* segmetrics columns are dropped *)
  end.

Definition squash_by_groups (levels : list (option Q)) (t : list seg) : list seg :=
  let names := map chrom t in
  let u := uniq_str names in
  let keys := mk_keys (enumerate_changes levels) (map (fun c => index_of c u) names)
                      (enumerate_changes (map cn1 t)) (enumerate_changes (map cn2 t)) in
  map (fun kg => squash_region (snd kg)) (group_by_key (combine keys t)).

(* ------------------------------------------------------------------ filters *)

Inductive filt := Fci | Fsem | Fcn | Fampdel.

Definition filt_eqb (a b : filt) : bool :=
  match a, b with
  | Fci, Fci | Fsem, Fsem | Fcn, Fcn | Fampdel, Fampdel => true
  | _, _ => false
  end.

Definition filt_of_name (s : string) : option filt :=
  if String.eqb s "ci" then Some Fci
  else if String.eqb s "sem" then Some Fsem
  else if String.eqb s "cn" then Some Fcn
  else if String.eqb s "ampdel" then Some Fampdel
  else None.

(* a comparison with a missing value is False *)
Definition opt_ltb (a : option Q) (c : Q) : bool :=
  match a with Some x => Qltb x c | None => false end.
Definition opt_gtb (a : option Q) (c : Q) : bool :=
  match a with Some x => Qltb c x | None => false end.

(* the level each filter assigns to a row (later assignments override earlier ones) *)
Definition level (f : filt) (s : seg) : Q :=
  match f with
  | Fcn => cn s
  | Fci =>
      if opt_ltb (ci_hi s) ci_hi_below then (-1)%Q
      else if opt_gtb (ci_lo s) ci_lo_above then 1%Q else 0%Q
  | Fsem =>
      match sem s with
      | None => 0%Q
      | Some e =>
          let m := (e * sem_zscore)%Q in
          if Qltb (log2 s + m) sem_below then (-1)%Q
          else if Qltb sem_above (log2 s - m) then 1%Q else 0%Q
      end
  | Fampdel =>
      if Qle_bool ampdel_amp_cn (cn s) then 1%Q
      else if Qeq_bool (cn s) ampdel_del_cn then (-1)%Q else 0%Q
  end.

Definition squashed (f : filt) (t : list seg) : list seg :=
  squash_by_groups (map (fun s => Some (level f s)) t) t.

Definition ampdel_keep (o : seg) : bool :=
  Qeq_bool (cn o) ampdel_keep_del_cn || Qle_bool ampdel_keep_amp_cn (cn o).

Definition apply_filter (f : filt) (t : list seg) : list seg :=
  match f with
  | Fampdel => filter ampdel_keep (squashed f t)
  | _ => squashed f t
  end.

(* -------------------------------------------------- do_call's filter handling *)

Definition memf (f : filt) (l : list filt) : bool := existsb (filt_eqb f) l.

Fixpoint remove_first (f : filt) (l : list filt) : list filt :=
  match l with
  | [] => []
  | g :: t => if filt_eqb f g then t else g :: remove_first f t
  end.

(* for filt in ("ci", "sem"): if filt in filters: apply it now and remove it *)
Definition pre_filters : list filt := filter_some (map filt_of_name pre_call_filters).

Fixpoint pre_steps (ps : list filt) (t : list seg) (fs : list filt) : list seg * list filt :=
  match ps with
  | [] => (t, fs)
  | p :: ps' =>
      if memf p fs then pre_steps ps' (apply_filter p t) (remove_first p fs)
      else pre_steps ps' t fs
  end.

Definition apply_seq (fs : list filt) (t : list seg) : list seg :=
  fold_left (fun acc f => apply_filter f acc) fs t.

(* `call` stands for everything do_call does between the two filter blocks
   (baf, purity rescaling, the calling method, cn1/cn2) *)
Definition call_with_filters (call : list seg -> list seg) (fs : list filt) (t : list seg) : list seg :=
  let '(t1, rest) := pre_steps pre_filters t fs in
  apply_seq rest (call t1).

(* ------------------------------------------- do_call with the real calling step *)

(* what do_call does between the two filter blocks, without a VCF: purity
   rescaling of log2 (Model/Call.v), the calling method (Model/Call.v clonal,
   Model/Threshold.v threshold, none), cn = round(absolutes), and the allelic
   split from the table's baf column (Model/Baf.v).  exp2 / lg2 are oracles
   (2**x and np.log2 as the code's libm computes them). *)

Inductive meth := Mthreshold | Mclonal | Mnone.

Record callcfg := mkCfg {
  c_method : meth; c_ploidy : Z; c_purity : option Q;
  c_hapx : bool;                       (* is_haploid_x_reference *)
  c_female : bool;                     (* is_sample_female *)
  c_build : option string;             (* diploid_parx_genome *)
  c_thresholds : list Q;
  c_has_baf : bool }.                  (* "baf" in outarr: the table has a baf column *)

Definition set_log2 (s : seg) (v : Q) : seg :=
  mkSeg (chrom s) (lo s) (hi s) (gene s) v (probes s) (weight s) (depth s) (baf s)
        (cn s) (cn1 s) (cn2 s) (pbt s) (ci_lo s) (ci_hi s) (sem s).

Definition set_cn (s : seg) (c : Q) (a : option (option Q * option Q)) : seg :=
  mkSeg (chrom s) (lo s) (hi s) (gene s) (log2 s) (probes s) (weight s) (depth s) (baf s)
        c (match a with Some (x, _) => x | None => cn1 s end)
          (match a with Some (_, y) => y | None => cn2 s end)
        (pbt s) (ci_lo s) (ci_hi s) (sem s).

Definition optZ_Q (o : option Z) : option Q :=
  match o with Some z => Some (inject_Z z) | None => None end.

Section CallStep.
Variable exp2 lg2 : Q -> Q.
Variable cfg : callcfg.

Definition in_row_of (s : seg) : Call.in_row := (chrom s, lo s, hi s, exp2 (log2 s)).

(* C01's row: (rounded cn, absolute before rounding, rewritten ratio 2^log2 if rewritten) *)
Definition clonal_row (first : string) (s : seg) : Call.out_row :=
  Call.call_row (c_ploidy cfg) (c_purity cfg) (c_hapx cfg) (c_female cfg) (c_build cfg) first (in_row_of s).

(* the ratio whose log2 replaces the row's log2 (`if purity and purity < 1.0`) *)
Definition purity_ratio (first : string) (s : seg) : option Q :=
  match Call.use_purity (c_purity cfg) with
  | Some _ => snd (clonal_row first s)
  | None => None
  end.

Definition rescale_row (first : string) (s : seg) : seg :=
  match purity_ratio first s with
  | Some ratio => set_log2 s (lg2 ratio)
  | None => s
  end.

(* C02's row on the (possibly rewritten) log2 *)
Definition thr_row_of (s' : seg) : Threshold.thr_row := (chrom s', Some (log2 s'), exp2 (log2 s')).

(* `absolutes`: s is the row before, s' after the purity rescaling *)
Definition absolute_of (first : string) (s s' : seg) : option Q :=
  match c_method cfg with
  | Mthreshold =>
      Some (inject_Z (Threshold.thr_row_cn (c_ploidy cfg) (c_hapx cfg) (c_thresholds cfg) (thr_row_of s')))
  | Mclonal => Some (snd (fst (clonal_row first s)))
  | Mnone => None
  end.

Definition call_row (first : string) (s : seg) : seg :=
  let s' := rescale_row first s in
  match absolute_of first s s' with
  | None => s'
  | Some a =>
      let c := Call.round_he a in
      set_cn s' (inject_Z c)
        (if c_has_baf cfg
         then let '(x, y) := Baf.alleles a (baf s') c in Some (optZ_Q x, optZ_Q y)
         else None)
  end.

Definition build_ok : bool :=
  match Call.use_purity (c_purity cfg), c_build cfg with
  | Some _, Some b => Call.build_supported b
  | _, _ => true
  end.

Definition first_of (t : list seg) : string :=
  match t with s :: _ => chrom s | [] => EmptyString end.

(* None = AssertionError (unsupported genome build on the purity path) *)
Definition call_step (t : list seg) : option (list seg) :=
  if build_ok then Some (map (call_row (first_of t)) t) else None.

(* per row: the absolute before rounding and the log2 the thresholds see (for
   the harness: float decisions near a boundary) *)
Definition call_diag (t : list seg) : list (option Q * Q) :=
  map (fun s => let s' := rescale_row (first_of t) s in (absolute_of (first_of t) s s', log2 s')) t.

Definition do_call_model (fs : list filt) (t : list seg) : option (list seg) :=
  let '(t1, rest) := pre_steps pre_filters t fs in
  match call_step t1 with
  | Some t2 => Some (apply_seq rest t2)
  | None => None
  end.

End CallStep.
