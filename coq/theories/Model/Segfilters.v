(* Model of cnvlib/segfilters.py (squash_by_groups, enumerate_changes,
   squash_region, the four level functions ampdel / ci / cn / sem), of the
   filter handling of cnvlib/call.py:do_call, and a local executable mirror of
   cnvlib/descriptives.py:weighted_median (with its on_weighted_array wrapper)
   and of np.median, as the code is NOW (/repo 6a8e569: levels aligned by
   position, a level change wherever consecutive levels differ, missing is a
   level of its own; d9d607e: relative tie tolerance of the weighted median).

   A segment table is a list of rows; a missing cell (NaN) is None.  A column
   that is absent from the table is represented by None in every row (the
   grouping and every aggregate then behave as the code does without the
   column).  The table's pandas index plays no role any more (checked by the
   harness with non-default indexes).  No proofs in this file. *)
From Coq Require Import QArith.Qabs.
From CNV Require Import Base.Prelude Base.Str Gen.SegfilterDefaults.

Record seg := mkSeg {
  chrom : string; lo : Z; hi : Z; gene : string;
  log2 : Q; probes : Z; weight : Q;
  depth : option Q; baf : option Q;
  cn : Q; cn1 : option Q; cn2 : option Q;
  pbt : option Q;                                  (* p_bintest *)
  ci_lo : option Q; ci_hi : option Q; sem : option Q }.

(* ---------------------------------------------------------------- numerics *)

Definition Qltb (a b : Q) : bool := negb (Qle_bool b a).

Definition optQ_eqb (a b : option Q) : bool :=
  match a, b with
  | Some x, Some y => Qeq_bool x y
  | None, None => true
  | _, _ => false
  end.

Fixpoint sumQ (l : list Q) : Q :=
  match l with [] => 0%Q | x :: t => Qred (x + sumQ t) end.

Fixpoint dotQ (ws xs : list Q) : Q :=
  match ws, xs with
  | w :: ws', x :: xs' => Qred (w * x + dotQ ws' xs')
  | _, _ => 0%Q
  end.

Definition Qlen {A} (l : list A) : Q := inject_Z (Z.of_nat (length l)).

(* np.average(x, weights=w) if w.sum() > 0 else np.mean(x) *)
Definition wmean (ws xs : list Q) : Q :=
  let W := sumQ ws in
  if Qltb region_weight_min W then Qred (dotQ ws xs / W) else Qred (sumQ xs / Qlen xs).

Fixpoint filter_some {A} (l : list (option A)) : list A :=
  match l with
  | [] => []
  | Some a :: t => a :: filter_some t
  | None :: t => filter_some t
  end.

(* the same on a column with missing cells: np.average gives NaN as soon as one
   cell is NaN, whereas np.mean of a pandas column skips the missing cells (NaN
   when nothing is left) *)
Definition wmean_opt (ws : list Q) (xs : list (option Q)) : option Q :=
  if Qltb region_weight_min (sumQ ws) then
    match all_some xs with Some l => Some (wmean ws l) | None => None end
  else
    match filter_some xs with
    | [] => None
    | l => Some (Qred (sumQ l / Qlen l))
    end.

(* stable insertion sort of (value, weight) pairs by value *)
Fixpoint ins_pair (x : Q * Q) (l : list (Q * Q)) : list (Q * Q) :=
  match l with
  | [] => [x]
  | y :: t => if Qltb (fst y) (fst x) then y :: ins_pair x t else x :: l
  end.
Definition sort_pairs (l : list (Q * Q)) : list (Q * Q) := fold_right ins_pair [] l.

Fixpoint ins_q (x : Q) (l : list Q) : list Q :=
  match l with
  | [] => [x]
  | y :: t => if Qltb y x then y :: ins_q x t else x :: l
  end.
Definition sort_q (l : list Q) : list Q := fold_right ins_q [] l.

Fixpoint cumsum_from (acc : Q) (l : list Q) : list Q :=
  match l with
  | [] => []
  | x :: t => let a := Qred (acc + x) in a :: cumsum_from a t
  end.

(* cumulative_weight.searchsorted(midpoint): first i with midpoint <= cum[i] *)
Fixpoint first_ge (mid : Q) (cum : list Q) : nat :=
  match cum with
  | [] => O
  | c :: t => if Qle_bool mid c then O else S (first_ge mid t)
  end.

(* weights.argmax(): first index of the maximum *)
Fixpoint argmax_aux (l : list Q) (i bi : nat) (b : Q) : nat :=
  match l with
  | [] => bi
  | x :: t => if Qltb b x then argmax_aux t (S i) i x else argmax_aux t (S i) bi b
  end.
Definition argmax (l : list Q) : nat :=
  match l with [] => O | x :: t => argmax_aux t 1%nat O x end.

Definition float_eps : Q := 1 # 4503599627370496.       (* sys.float_info.epsilon = 2^-52 *)

Definition mean2 (a b : Q) : Q := Qred ((a + b) / 2).

(* body of descriptives.weighted_median on the sorted pairs (at least 2 of them) *)
Definition wmedian_sorted (ps : list (Q * Q)) : Q :=
  let a := map fst ps in
  let w := map snd ps in
  let d := hd 0%Q a in
  let mid := Qred (wmedian_mid_factor * sumQ w) in
  if existsb (fun wi => Qltb mid wi) w then nth (argmax w) a d
  else
    let cum := cumsum_from 0 w in
    let idx := first_ge mid cum in
    let tol := (Qlen a * float_eps * last cum 0)%Q in
    if (S idx <? length a)%nat && Qle_bool (Qabs (nth idx cum 0%Q - mid)) tol
    then mean2 (nth idx a d) (nth (S idx) a d)
    else nth idx a d.

(* on_weighted_array: cells missing in `a` are dropped from both arrays; nothing
   left -> NaN; a single value -> that value *)
Fixpoint drop_none (l : list (option Q * Q)) : list (Q * Q) :=
  match l with
  | [] => []
  | (Some a, w) :: t => (a, w) :: drop_none t
  | (None, _) :: t => drop_none t
  end.

Definition wmedian_pairs (ps : list (Q * Q)) : option Q :=
  match ps with
  | [] => None
  | [(a, _)] => Some a
  | _ => Some (wmedian_sorted (sort_pairs ps))
  end.

Definition wmedian_opt (vals : list (option Q)) (ws : list Q) : option Q :=
  wmedian_pairs (drop_none (combine vals ws)).

Definition wmedian (vals ws : list Q) : Q :=
  match wmedian_pairs (combine vals ws) with Some m => m | None => 0%Q end.

(* np.median of a non-empty list *)
Definition median (l : list Q) : Q :=
  let s := sort_q l in
  let n := length s in
  let d := hd 0%Q s in
  if Nat.even n then mean2 (nth (n / 2 - 1)%nat s d) (nth (n / 2)%nat s d)
  else nth (n / 2)%nat s d.

Definition median_opt (l : list (option Q)) : option Q :=
  match all_some l with
  | Some (x :: t) => Some (median (x :: t))
  | _ => None
  end.

(* Series.max() skipping NaN; NaN when nothing is left *)
Definition omax (a b : option Q) : option Q :=
  match a, b with
  | Some x, Some y => Some (if Qle_bool x y then y else x)
  | Some x, None => Some x
  | None, _ => b
  end.

(* ------------------------------------------------------------ strings/keys *)

(* Series.drop_duplicates() / unique(): distinct values in first-occurrence order *)
Fixpoint uniq_str (l : list string) : list string :=
  match l with
  | [] => []
  | x :: t => x :: filter (fun y => negb (String.eqb x y)) (uniq_str t)
  end.

Fixpoint index_of (s : string) (l : list string) : Z :=
  match l with
  | [] => 0
  | x :: t => if String.eqb s x then 0 else 1 + index_of s t
  end.

(* enumerate_changes: count of positions (after the first) whose level differs
   from the previous one; two consecutive missing values do not differ, a
   missing and a present value do *)
Fixpoint enum_from (n : Z) (prev : option Q) (l : list (option Q)) : list Z :=
  match l with
  | [] => []
  | c :: t => let n' := if optQ_eqb prev c then n else n + 1 in n' :: enum_from n' c t
  end.
Definition enumerate_changes (l : list (option Q)) : list Z :=
  match l with [] => [] | c :: t => 0 :: enum_from 0 c t end.

Definition key := (Z * Z * Z)%type.
Definition key_eqb (a b : key) : bool :=
  let '(a1, a2, a3) := a in let '(b1, b2, b3) := b in
  (a1 =? b1) && (a2 =? b2) && (a3 =? b3).

(* (_group, _g1, _g2) per row; _group = change count of the level + chromosome ordinal *)
Fixpoint mk_keys (g o g1 g2 : list Z) : list key :=
  match g, o, g1, g2 with
  | a :: g', b :: o', c :: g1', d :: g2' => (a + b, c, d) :: mk_keys g' o' g1' g2'
  | _, _, _, _ => []
  end.

(* pandas groupby(keys, sort=False): rows with equal key form one group, adjacent
   or not; groups come in order of first occurrence, rows keep their order *)
Fixpoint lookup_group {A} (k : key) (gs : list (key * list A)) : list A :=
  match gs with
  | [] => []
  | (k', g) :: t => if key_eqb k k' then g else lookup_group k t
  end.
Fixpoint remove_group {A} (k : key) (gs : list (key * list A)) : list (key * list A) :=
  match gs with
  | [] => []
  | (k', g) :: t => if key_eqb k k' then t else (k', g) :: remove_group k t
  end.
Fixpoint group_by_key {A} (l : list (key * A)) : list (key * list A) :=
  match l with
  | [] => []
  | (k, a) :: t =>
      let gs := group_by_key t in (k, a :: lookup_group k gs) :: remove_group k gs
  end.

(* ------------------------------------------------------------ squash_region *)

Definition join_genes (l : list string) : string := String.concat "," (uniq_str l).

Definition dummy_seg : seg :=
  mkSeg "" 0 0 "" 0 0 0 None None 0 None None None None None None.

Definition squash_region (r : list seg) : seg :=
  match r with
  | [] => dummy_seg
  | s0 :: _ =>
      let ws := map weight r in
      let pos := Qltb region_weight_min (sumQ ws) in
      let cn_out := if pos then wmedian (map cn r) ws else median (map cn r) in
      let cn1_out := if pos then wmedian_opt (map cn1 r) ws else median_opt (map cn1 r) in
      mkSeg (chrom s0) (lo s0) (hi (last r s0))
        (join_genes (map gene r))
        (wmean ws (map log2 r))
        (sumZ (map probes r))
        (sumQ ws)
        (wmean_opt ws (map depth r))
        (wmean_opt ws (map baf r))
        cn_out cn1_out
        (match cn1_out with Some c1 => Some (Qred (cn_out - c1)) | None => None end)
        (fold_right omax None (map pbt r))
        None None None                     (* segmetrics columns are dropped *)
  end.

Definition squash_by_groups (levels : list (option Q)) (t : list seg) : list seg :=
  let names := map chrom t in
  let u := uniq_str names in
  let keys := mk_keys (enumerate_changes levels) (map (fun c => index_of c u) names)
                      (enumerate_changes (map cn1 t)) (enumerate_changes (map cn2 t)) in
  map (fun kg => squash_region (snd kg)) (group_by_key (combine keys t)).

(* ------------------------------------------------------------------ filters *)

Inductive filt := Fci | Fsem | Fcn | Fampdel.

Definition filt_eqb (a b : filt) : bool :=
  match a, b with
  | Fci, Fci | Fsem, Fsem | Fcn, Fcn | Fampdel, Fampdel => true
  | _, _ => false
  end.

Definition filt_of_name (s : string) : option filt :=
  if String.eqb s "ci" then Some Fci
  else if String.eqb s "sem" then Some Fsem
  else if String.eqb s "cn" then Some Fcn
  else if String.eqb s "ampdel" then Some Fampdel
  else None.

(* a comparison with a missing value is False *)
Definition opt_ltb (a : option Q) (c : Q) : bool :=
  match a with Some x => Qltb x c | None => false end.
Definition opt_gtb (a : option Q) (c : Q) : bool :=
  match a with Some x => Qltb c x | None => false end.

(* the level each filter assigns to a row (later assignments override earlier ones) *)
Definition level (f : filt) (s : seg) : Q :=
  match f with
  | Fcn => cn s
  | Fci =>
      if opt_ltb (ci_hi s) ci_hi_below then (-1)%Q
      else if opt_gtb (ci_lo s) ci_lo_above then 1%Q else 0%Q
  | Fsem =>
      match sem s with
      | None => 0%Q
      | Some e =>
          let m := (e * sem_zscore)%Q in
          if Qltb (log2 s + m) sem_below then (-1)%Q
          else if Qltb sem_above (log2 s - m) then 1%Q else 0%Q
      end
  | Fampdel =>
      if Qle_bool ampdel_amp_cn (cn s) then 1%Q
      else if Qeq_bool (cn s) ampdel_del_cn then (-1)%Q else 0%Q
  end.

Definition squashed (f : filt) (t : list seg) : list seg :=
  squash_by_groups (map (fun s => Some (level f s)) t) t.

Definition ampdel_keep (o : seg) : bool :=
  Qeq_bool (cn o) ampdel_keep_del_cn || Qle_bool ampdel_keep_amp_cn (cn o).

Definition apply_filter (f : filt) (t : list seg) : list seg :=
  match f with
  | Fampdel => filter ampdel_keep (squashed f t)
  | _ => squashed f t
  end.

(* -------------------------------------------------- do_call's filter handling *)

Definition memf (f : filt) (l : list filt) : bool := existsb (filt_eqb f) l.

Fixpoint remove_first (f : filt) (l : list filt) : list filt :=
  match l with
  | [] => []
  | g :: t => if filt_eqb f g then t else g :: remove_first f t
  end.

(* for filt in ("ci", "sem"): if filt in filters: apply it now and remove it *)
Definition pre_filters : list filt := filter_some (map filt_of_name pre_call_filters).

Fixpoint pre_steps (ps : list filt) (t : list seg) (fs : list filt) : list seg * list filt :=
  match ps with
  | [] => (t, fs)
  | p :: ps' =>
      if memf p fs then pre_steps ps' (apply_filter p t) (remove_first p fs)
      else pre_steps ps' t fs
  end.

Definition apply_seq (fs : list filt) (t : list seg) : list seg :=
  fold_left (fun acc f => apply_filter f acc) fs t.

(* `call` stands for everything do_call does between the two filter blocks
   (baf, purity rescaling, the calling method, cn1/cn2) *)
Definition call_with_filters (call : list seg -> list seg) (fs : list filt) (t : list seg) : list seg :=
  let '(t1, rest) := pre_steps pre_filters t fs in
  apply_seq rest (call t1).
