(* Model of cnvlib/access.py: the FASTA scanner (get_regions), join_regions,
   and the contig-name rule of cnvlib/antitarget.py (is_canonical_contig_name).
   The scanner is generic in the character type and the "is N" test; the entry
   points instantiate it with ascii and (c = "N"). *)
From CNV Require Import Base.Prelude Base.Str.

Section Scan.
Context {A : Type} (isN : A -> bool).

(* np.where(line_chars == b"N")[0], with indices starting at i *)
Fixpoint n_indices (l : list A) (i : Z) : list Z :=
  match l with
  | [] => []
  | c :: t => if isN c then i :: n_indices t (i + 1) else n_indices t (i + 1)
  end.

(* the "short intermediate blocks": for consecutive N positions a, b with
   b - a > 1, the block [a + 1 + cursor, b + cursor) *)
Fixpoint gaps (cursor : Z) (ns : list Z) : list (Z * Z) :=
  match ns with
  | a :: ((b :: _) as t) =>
      (if 1 <? b - a then [(a + 1 + cursor, b + cursor)] else []) ++ gaps cursor t
  | _ => []
  end.

Definition scan_state := (Z * option Z)%type.   (* cursor, run_start *)

Definition emit_open (o : option Z) (e : Z) : list (Z * Z) :=
  match o with Some s => [(s, e)] | None => [] end.

(* one iteration of the `for line in infile` loop, sequence-line branch, for a line that
   is not empty after rstrip *)
Definition scan_line_body (st : scan_state) (line : list A) : list (Z * Z) * scan_state :=
  let '(cursor, run_start) := st in
  let len := Z.of_nat (length line) in
  if existsb isN line then
    if forallb isN line then
      (emit_open run_start cursor, (cursor + len, None))
    else
      let ns := n_indices line 0 in
      let n0 := hd 0 ns in
      let nl := last ns 0 in
      let first :=
        match run_start with
        | Some s => [(s, cursor + n0)]
        | None => if n0 =? 0 then [] else [(cursor, cursor + n0)]
        end in
      let rs := if nl + 1 <? len then Some (cursor + nl + 1) else None in
      (first ++ gaps cursor ns, (cursor + len, rs))
  else
    ([], (cursor + len, match run_start with None => Some cursor | Some s => Some s end)).

(* `line = line.rstrip(); if not line: continue`: a blank line has no bases, it neither
   starts nor ends a run and leaves the cursor where it is (fix 784419a) *)
Definition scan_line (st : scan_state) (line : list A) : list (Z * Z) * scan_state :=
  match line with
  | [] => ([], st)
  | _ => scan_line_body st line
  end.

Fixpoint scan_lines (st : scan_state) (lines : list (list A)) : list (Z * Z) * scan_state :=
  match lines with
  | [] => ([], st)
  | l :: t =>
      let '(out1, st1) := scan_line st l in
      let '(out2, st2) := scan_lines st1 t in
      (out1 ++ out2, st2)
  end.

(* all regions of one sequence record: cursor and run_start are reset at the header,
   and the last run is emitted at the next header / end of file *)
Definition regions_of_record (lines : list (list A)) : list (Z * Z) :=
  let '(out, (cursor, rs)) := scan_lines (0, None) lines in
  out ++ emit_open rs cursor.

End Scan.

(* join_regions for one chromosome: None models the `assert gap > 0` failure *)
Fixpoint join_from (g : Z) (ps pe : Z) (rest : list (Z * Z)) : option (list (Z * Z)) :=
  match rest with
  | [] => Some [(ps, pe)]
  | (s, e) :: t =>
      let gap := s - pe in
      if gap <=? 0 then None
      else if gap <? g then join_from g ps e t
      else match join_from g s e t with
           | Some r => Some ((ps, pe) :: r)
           | None => None
           end
  end.

Definition join_regions (g : Z) (rows : list (Z * Z)) : option (list (Z * Z)) :=
  match rows with
  | [] => Some []
  | (s, e) :: t => join_from g s e t
  end.

(* ---- ascii instantiation --------------------------------------------- *)

Definition isN_ascii (c : ascii) : bool := Ascii.eqb c "N"%char.

Definition get_regions_record (lines : list string) : list (Z * Z) :=
  regions_of_record isN_ascii (map chars lines).

(* re_noncanonical.search(name), written for the pattern source recorded in
   Gen.Patterns.re_noncanonical_src (checked equal in Props/C13.v):
   ^chrEBV$ | ^NC | _random$ | Un_ | ^HLA\- | _alt$ | hap\d$ | chrM | MT  *)
Definition ends_hap_digit (s : list ascii) : bool :=
  match rev s with
  | d :: p :: a :: h :: _ =>
      is_digit d && Ascii.eqb p "p"%char && Ascii.eqb a "a"%char && Ascii.eqb h "h"%char
  | _ => false
  end.

Definition noncanonical (name : string) : bool :=
  let s := chars name in
  String.eqb name "chrEBV"
  || prefixb (chars "NC") s
  || suffixb (chars "_random") s
  || infixb (chars "Un_") s
  || prefixb (chars "HLA-") s
  || suffixb (chars "_alt") s
  || ends_hap_digit s
  || infixb (chars "chrM") s
  || infixb (chars "MT") s.

Definition is_canonical_contig_name (name : string) : bool := negb (noncanonical name).
