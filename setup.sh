#!/bin/bash
# Build the framework from files on disk only (offline): regenerate Gen/*.v from /repo,
# full .vo build of the Coq development, extraction, OCaml driver.
set -e -o pipefail
HERE="$(cd "$(dirname "$0")" && pwd)"
cd "$HERE"
mkdir -p build evidence/replays
/venv/bin/python tools/py2v_data.py
python3 tools/gen_build.py
cd coq
coq_makefile -f _CoqProject -o Makefile > /dev/null
timeout 3000 make -j16 2>&1 | tail -5
test -f theories/Extract/Dispatch.vo
cd ocaml && ./build.sh
echo "setup ok"
